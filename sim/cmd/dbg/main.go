package main

import (
	"encoding/json"
	"fmt"
	"os"

	"verif/sim/internal/drive"
	"verif/sim/internal/refmcap"
	"verif/sim/internal/runner"
	"verif/sim/internal/scen"
	"verif/sim/internal/simdisk"
)

func main() {
	b, _ := os.ReadFile(os.Args[1])
	var rf runner.ReplayFile
	if err := json.Unmarshal(b, &rf); err != nil {
		panic(err)
	}
	sc := rf.Scenario
	sink := simdisk.NewSink(nil)
	drive.RunWriter(*sc.Cfg, *sc.WL, sink, drive.WriteOpts{})
	img := sink.Data
	f, err := refmcap.Decode(img, refmcap.DecodeOptions{Custom: drive.RefDecompressors()})
	fmt.Println("decode err", err, "len", len(img))
	for i, r := range f.Records {
		extra := ""
		if c, ok := r.V.(*refmcap.Chunk); ok {
			extra = fmt.Sprintf(" recordsOff=%d len=%d inner=%d", c.RecordsOff, len(c.Records), len(c.Inner))
		}
		fmt.Printf("%3d %-16s off=%d end=%d%s\n", i, refmcap.OpName(r.Op), r.Off, r.End(), extra)
	}
	if sc.Fault != nil {
		img = simdisk.Apply(img, *sc.Fault)
	}
	lr := drive.LexAll(simdisk.NewSource(img, scen.Delivery{Kind: "full"}, nil), drive.LexSpec{Validate: true, AttachCB: true, ComputeCRC: true})
	for i, r := range lr.Recs {
		fmt.Printf("tok %d %s id=%d\n", i, r.Kind, r.ID)
	}
	fmt.Println("terminal", lr.Terminal(), lr.Err, lr.Panic)
}
