package main

import (
	"os"
	"runtime/pprof"
)

func startProf() func() {
	p := os.Getenv("VERIF_CPUPROFILE")
	if p == "" {
		return func() {}
	}
	f, err := os.Create(p)
	if err != nil {
		return func() {}
	}
	_ = pprof.StartCPUProfile(f)
	return func() { pprof.StopCPUProfile(); f.Close() }
}
