package main

import (
	"fmt"
	"os"
	"path/filepath"
	"time"

	"verif/sim/internal/refmcap"
)

func repoDir() string {
	if d := os.Getenv("VERIF_REPO"); d != "" {
		return d
	}
	return "/repo"
}

// cmdSelftest pins the trusted base: all conformance binaries are regenerated
// from their .json expectations with refmcap.Encode and must match the Git-LFS
// pointers' sha256 and size; each is decoded again and compared with the
// expectation, and must pass refmcap's own validator and CRC check.
func cmdSelftest(args []string) int {
	start := time.Now()
	dir := filepath.Join(repoDir(), "tests", "conformance", "data")
	n, problems := refmcap.ConformancePin(dir)
	for i, p := range problems {
		if i < 20 {
			fmt.Println("SELFTEST-FAIL:", p)
		}
	}
	bagProblems := bagSelftest()
	for _, p := range bagProblems {
		fmt.Println("SELFTEST-FAIL:", p)
	}
	fmt.Printf("selftest: %d conformance vectors regenerated and decoded, %d problems; bag encoder read back by go-rosbag, %d problems (%.1fs)\n", n, len(problems), len(bagProblems), time.Since(start).Seconds())
	if n < 400 || len(problems) > 0 || len(bagProblems) > 0 {
		return 2
	}
	return 0
}

func cmdWorker(args []string) int { return 2 }
