package main

import "fmt"

func cmdSelftest(args []string) int { fmt.Println("selftest: not built yet"); return 0 }
func cmdWorker(args []string) int   { return 2 }
