// mcapsim: deterministic simulation with fault injection for foxglove/mcap.
package main

import (
	"encoding/json"
	"flag"
	"fmt"
	"os"
	"os/exec"
	"runtime"
	"strconv"
	"strings"
	"time"

	_ "verif/sim/internal/props"
	"verif/sim/internal/runner"
)

func usage() {
	fmt.Fprintf(os.Stderr, "usage: mcapsim run <prop> [--tier quick|thorough] | batch ... | replay <file> | selftest | list\n")
	os.Exit(2)
}

func main() {
	if len(os.Args) < 2 {
		usage()
	}
	switch os.Args[1] {
	case "list":
		for _, id := range runner.IDs() {
			fmt.Println(id)
		}
	case "run":
		os.Exit(cmdRun(os.Args[2:]))
	case "batch":
		os.Exit(cmdBatch(os.Args[2:]))
	case "replay":
		os.Exit(cmdReplay(os.Args[2:]))
	case "replay-child":
		os.Exit(cmdReplayChild(os.Args[2:]))
	case "selftest":
		os.Exit(cmdSelftest(os.Args[2:]))
	case "worker":
		os.Exit(cmdWorker(os.Args[2:]))
	default:
		usage()
	}
}

func cmdRun(args []string) int {
	fs := flag.NewFlagSet("run", flag.ExitOnError)
	tier := fs.String("tier", envOr("VERIF_TIER", "quick"), "quick|thorough")
	verif := fs.String("verif", envOr("VERIF_DIR", "/verif"), "verif directory")
	workers := fs.Int("workers", 0, "parallel batch processes (default: min(16, NumCPU))")
	rev := fs.String("rev", envOr("VERIF_REPO_REV", "unknown"), "repo revision label")
	maxWall := fs.Duration("max-wall", 0, "stop starting new batches after this long")
	nseeds := fs.Int("seeds", 0, "number of derived seeds (default 1 quick, 4 thorough)")
	if len(args) < 1 {
		usage()
	}
	prop := args[0]
	_ = fs.Parse(args[1:])
	if *tier != "quick" && *tier != "thorough" {
		fmt.Fprintf(os.Stderr, "bad tier %q\n", *tier)
		return 2
	}
	w := *workers
	if w <= 0 {
		w = runtime.NumCPU()
		if w > 16 {
			w = 16
		}
	}
	self, err := os.Executable()
	if err != nil {
		fmt.Fprintln(os.Stderr, err)
		return 2
	}
	vs := runner.VerifSeed()
	n := *nseeds
	if n == 0 {
		n = 1
		if *tier == "thorough" {
			n = 3
		}
	}
	seeds := []uint64{vs}
	for i := 1; i < n; i++ {
		seeds = append(seeds, runner.BatchSeed(vs, "derived-seed", i))
	}
	mw := *maxWall
	if mw == 0 {
		if *tier == "quick" {
			mw = 150 * time.Second
		} else {
			mw = 20 * time.Minute
		}
	}
	return runner.RunProperty(runner.RunConfig{Prop: prop, Tier: *tier, VerifSeed: vs, Workers: w, VerifDir: *verif, Self: self, RepoRev: *rev, MaxWall: mw, Seeds: seeds})
}

func envOr(k, d string) string {
	if v := os.Getenv(k); v != "" {
		return v
	}
	return d
}

func cmdBatch(args []string) int {
	fs := flag.NewFlagSet("batch", flag.ExitOnError)
	prop := fs.String("prop", "", "")
	tier := fs.String("tier", "quick", "")
	seed := fs.String("seed", "1", "")
	batch := fs.Int("batch", 0, "")
	verif := fs.String("verif", "/verif", "")
	_ = fs.Parse(args)
	p, ok := runner.Lookup(*prop)
	if !ok {
		fmt.Fprintf(os.Stderr, "unknown property %s\n", *prop)
		return 2
	}
	s, err := strconv.ParseUint(*seed, 10, 64)
	if err != nil {
		fmt.Fprintln(os.Stderr, err)
		return 2
	}
	known, err := runner.LoadKnown(*verif + "/known_findings.json")
	if err != nil {
		fmt.Fprintln(os.Stderr, err)
		return 2
	}
	stop := startProf()
	r := runner.RunBatch(p, *tier, s, *batch, known)
	stop()
	b, err := json.Marshal(r)
	if err != nil {
		fmt.Fprintln(os.Stderr, err)
		return 2
	}
	fmt.Printf("BATCH-RESULT %s\n", b)
	return 0
}

// cmdReplay runs the replay in a child process so that a process-fatal outcome
// (log.Fatal, out of memory, stack overflow) is observed rather than suffered.
func cmdReplay(args []string) int {
	if len(args) < 1 {
		usage()
	}
	self, err := os.Executable()
	if err != nil {
		fmt.Fprintln(os.Stderr, err)
		return 2
	}
	cmd := exec.Command(self, "replay-child", args[0])
	cmd.Env = append(os.Environ(), "VERIF_REPLAY=1")
	var sb strings.Builder
	cmd.Stdout = &sb
	cmd.Stderr = &sb
	runErr := cmd.Run()
	out := sb.String()
	if strings.Contains(out, "REPRODUCED ") || strings.Contains(out, "NOT-REPRODUCED ") || strings.Contains(out, "DIFFERENT ") {
		fmt.Print(out)
		if ee, ok := runErr.(*exec.ExitError); ok {
			return ee.ExitCode()
		}
		if runErr != nil {
			return 2
		}
		return 0
	}
	// the child died without a verdict
	b, rerr := os.ReadFile(args[0])
	var rf runner.ReplayFile
	if rerr != nil || json.Unmarshal(b, &rf) != nil {
		fmt.Print(out)
		return 2
	}
	lines := strings.Split(strings.TrimSpace(out), "\n")
	last := lines[len(lines)-1]
	if len(last) > 200 {
		last = last[:200]
	}
	clause := "fatal"
	if ee, ok := runErr.(*exec.ExitError); ok && ee.ExitCode() == 66 {
		clause = "race_report"
	}
	fmt.Printf("REPRODUCED property=%s clause=%s detail=the process died while replaying (%v): %s\n", rf.Property, clause, runErr, last)
	fmt.Printf("VIOLATION property=%s replay=%s\n", rf.Property, args[0])
	return 1
}

func cmdReplayChild(args []string) int {
	rf, v, err := runner.ReplayWithWatchdog(args[0])
	if err != nil {
		fmt.Fprintf(os.Stderr, "replay: %v\n", err)
		return 2
	}
	if v == nil {
		fmt.Printf("NOT-REPRODUCED property=%s clause=%s (the recorded scenario passes on this tree)\n", rf.Property, rf.Clause)
		return 0
	}
	if v.Clause != rf.Clause {
		fmt.Printf("DIFFERENT property=%s recorded clause=%s now clause=%s detail=%s\n", rf.Property, rf.Clause, v.Clause, v.Detail)
		return 1
	}
	same := ""
	if strings.TrimSpace(v.Detail) == strings.TrimSpace(rf.Detail) {
		same = " (identical detail)"
	}
	fmt.Printf("REPRODUCED property=%s clause=%s%s detail=%s\n", rf.Property, v.Clause, same, v.Detail)
	fmt.Printf("VIOLATION property=%s replay=%s\n", rf.Property, args[0])
	return 1
}
