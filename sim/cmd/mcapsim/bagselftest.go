package main

import (
	"bytes"
	"errors"
	"fmt"
	"io"

	rosbag "github.com/foxglove/go-rosbag"
	"verif/sim/internal/bagfmt"
)

// bagSelftest cross-checks the bag encoder against foxglove/go-rosbag's
// independent reader: every message must come back in order with the same
// connection, time and bytes, for unchunked, chunked-none and chunked-lz4 bags.
func bagSelftest() []string {
	var problems []string
	conns := []bagfmt.Connection{
		{ID: 0, Topic: "/a", Type: "std_msgs/String", MD5: "abc", Def: "string data\n"},
		{ID: 65535, Topic: "/b", Type: "pkg/T", MD5: "0123456789abcdef0123456789abcdef", Def: "int32 x\n", Extra: []bagfmt.KV{{K: "callerid", V: "/n"}, {K: "latching", V: "1"}}, Repeat: 1},
		{ID: 7, Topic: "/unused", Type: "pkg/U", MD5: "d", Def: ""},
	}
	var msgs []bagfmt.Message
	for i := 0; i < 25; i++ {
		c := conns[i%2].ID
		msgs = append(msgs, bagfmt.Message{Conn: c, Secs: uint32(1700000000 + i/3), NSecs: uint32(i * 37), Size: []int{0, 1, 100, 5000}[i%4], Seed: uint64(i)})
	}
	for _, lay := range []bagfmt.Bag{
		{Chunked: false},
		{Chunked: true, Compression: "none", PerChunk: 4},
		{Chunked: true, Compression: "lz4", PerChunk: 7, RepeatConnEvery: 2},
	} {
		b := lay
		b.Conns, b.Msgs = conns, msgs
		b.ConnAt = []int{0, 1, len(msgs)}
		img, _ := bagfmt.Encode(&b)
		name := fmt.Sprintf("bag(chunked=%v,%s)", b.Chunked, b.Compression)
		rd, err := rosbag.NewReader(bytes.NewReader(img))
		if err != nil {
			problems = append(problems, name+": go-rosbag NewReader: "+err.Error())
			continue
		}
		// go-rosbag's linear iterator only leaves a chunk at a message record and
		// re-buffers the base stream; chunked bags are read through its index instead
		it, err := rd.Messages(rosbag.ScanLinear(!b.Chunked))
		if err != nil {
			problems = append(problems, name+": go-rosbag Messages: "+err.Error())
			continue
		}
		n := 0
		for it.More() {
			conn, m, err := it.Next()
			if err != nil {
				if errors.Is(err, io.EOF) {
					break
				}
				problems = append(problems, fmt.Sprintf("%s: go-rosbag Next after %d messages: %v", name, n, err))
				break
			}
			if n >= len(msgs) {
				problems = append(problems, name+": go-rosbag returned more messages than written")
				break
			}
			w := msgs[n]
			wantTime := uint64(w.Secs)*1000000000 + uint64(w.NSecs)
			if m.Conn != w.Conn || !bytes.Equal(m.Data, w.Bytes()) || m.Time != wantTime {
				problems = append(problems, fmt.Sprintf("%s: message %d: go-rosbag read conn=%d time=%d len=%d, written conn=%d time=%d len=%d", name, n, m.Conn, m.Time, len(m.Data), w.Conn, wantTime, w.Size))
				break
			}
			var wc *bagfmt.Connection
			for i := range conns {
				if conns[i].ID == w.Conn {
					wc = &conns[i]
				}
			}
			if conn == nil || conn.Topic != wc.Topic || conn.Data.Type != wc.Type || conn.Data.MD5Sum != wc.MD5 || string(conn.Data.MessageDefinition) != wc.Def {
				problems = append(problems, fmt.Sprintf("%s: message %d: connection read back differs", name, n))
				break
			}
			n++
		}
		if n != len(msgs) {
			problems = append(problems, fmt.Sprintf("%s: go-rosbag read %d of %d messages", name, n, len(msgs)))
		}
	}
	return problems
}
