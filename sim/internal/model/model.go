// Package model is the reference model: what was logically written, and what
// each kind of read must therefore return. It is trivial inside (slices and
// sorts) and never reads an implementation constant.
package model

import (
	"bytes"
	"fmt"
	"sort"

	"verif/sim/internal/scen"
)

type KV struct{ K, V string }

// Rec is the neutral, comparable form of a logical record, used for what was
// written (from ops) and what was observed (from any reader).
type Rec struct {
	Kind      string
	ID        uint16
	SchemaID  uint16
	ChannelID uint16
	Seq       uint32
	LogTime   uint64
	PubTime   uint64
	Name      string
	Topic     string
	Enc       string
	Meta      []KV // sorted by key
	Data      []byte
	CRC       uint32 // attachments: stored crc
	HasCRC    bool
	DeclSize  uint64 // attachments: declared data size
	HasSize   bool
	// binding of a message as returned by an iterator
	BoundChannel *Rec
	BoundSchema  *Rec
	// where it came from (op index for written, position for observed)
	Src int
}

func SortedMeta(kvs []scen.KV) []KV {
	m := scen.MapOf(kvs)
	return SortedMap(m)
}

func SortedMap(m map[string]string) []KV {
	out := make([]KV, 0, len(m))
	for k, v := range m {
		out = append(out, KV{k, v})
	}
	sort.Slice(out, func(i, j int) bool { return out[i].K < out[j].K })
	return out
}

func metaEq(a, b []KV) bool {
	if len(a) != len(b) {
		return false
	}
	for i := range a {
		if a[i] != b[i] {
			return false
		}
	}
	return true
}

// Diff returns "" when a and b are field-for-field equal, else the first
// differing field. Bindings are compared when both sides carry them.
func Diff(a, b *Rec) string {
	if a == nil || b == nil {
		if a == b {
			return ""
		}
		return fmt.Sprintf("nil mismatch (%v vs %v)", a != nil, b != nil)
	}
	switch {
	case a.Kind != b.Kind:
		return fmt.Sprintf("kind %s vs %s", a.Kind, b.Kind)
	case a.ID != b.ID:
		return fmt.Sprintf("id %d vs %d", a.ID, b.ID)
	case a.SchemaID != b.SchemaID:
		return fmt.Sprintf("schema_id %d vs %d", a.SchemaID, b.SchemaID)
	case a.ChannelID != b.ChannelID:
		return fmt.Sprintf("channel_id %d vs %d", a.ChannelID, b.ChannelID)
	case a.Seq != b.Seq:
		return fmt.Sprintf("sequence %d vs %d", a.Seq, b.Seq)
	case a.LogTime != b.LogTime:
		return fmt.Sprintf("log_time %d vs %d", a.LogTime, b.LogTime)
	case a.PubTime != b.PubTime:
		return fmt.Sprintf("publish/create_time %d vs %d", a.PubTime, b.PubTime)
	case a.Name != b.Name:
		return fmt.Sprintf("name %q vs %q", a.Name, b.Name)
	case a.Topic != b.Topic:
		return fmt.Sprintf("topic %q vs %q", a.Topic, b.Topic)
	case a.Enc != b.Enc:
		return fmt.Sprintf("encoding %q vs %q", a.Enc, b.Enc)
	case !metaEq(a.Meta, b.Meta):
		return fmt.Sprintf("metadata %v vs %v", a.Meta, b.Meta)
	case !bytes.Equal(a.Data, b.Data):
		return fmt.Sprintf("data differs (len %d vs %d)", len(a.Data), len(b.Data))
	case a.HasSize && b.HasSize && a.DeclSize != b.DeclSize:
		return fmt.Sprintf("declared data size %d vs %d", a.DeclSize, b.DeclSize)
	case a.HasCRC && b.HasCRC && a.CRC != b.CRC:
		return fmt.Sprintf("crc %08x vs %08x", a.CRC, b.CRC)
	}
	if a.BoundChannel != nil && b.BoundChannel != nil {
		if d := Diff(a.BoundChannel, b.BoundChannel); d != "" {
			return "bound channel: " + d
		}
	}
	if (a.BoundChannel != nil) && (b.BoundChannel != nil) {
		if (a.BoundSchema == nil) != (b.BoundSchema == nil) {
			return fmt.Sprintf("bound schema presence %v vs %v", a.BoundSchema != nil, b.BoundSchema != nil)
		}
		if a.BoundSchema != nil {
			if d := Diff(a.BoundSchema, b.BoundSchema); d != "" {
				return "bound schema: " + d
			}
		}
	}
	return ""
}

// DiffSeq compares two sequences element-wise; "" when equal.
func DiffSeq(want, got []*Rec) string {
	n := len(want)
	if len(got) < n {
		n = len(got)
	}
	for i := 0; i < n; i++ {
		if d := Diff(want[i], got[i]); d != "" {
			return fmt.Sprintf("element %d (%s): %s", i, want[i].Kind, d)
		}
	}
	if len(want) != len(got) {
		return fmt.Sprintf("length %d vs %d", len(want), len(got))
	}
	return ""
}

// IsPrefix reports whether got is an element-wise prefix of want; d explains.
func IsPrefix(want, got []*Rec) (bool, string) {
	if len(got) > len(want) {
		return false, fmt.Sprintf("got %d records, more than the %d of the full read", len(got), len(want))
	}
	for i := range got {
		if d := Diff(want[i], got[i]); d != "" {
			return false, fmt.Sprintf("element %d (%s): %s", i, want[i].Kind, d)
		}
	}
	return true, ""
}

// Content is what a workload logically wrote.
type Content struct {
	Profile, Library string
	// Data: schema, channel and message records in write order.
	Data        []*Rec
	Messages    []*Rec // subset of Data, each with BoundChannel/BoundSchema
	Attachments []*Rec
	Metadata    []*Rec
	// distinct definitions, first-write order
	Schemas  []*Rec
	Channels []*Rec
}

// FromWorkload derives the content from a legal workload.
func FromWorkload(w scen.Workload) *Content {
	c := &Content{Profile: string(w.Profile), Library: string(w.Library)}
	schemas := map[uint16]*Rec{}
	channels := map[uint16]*Rec{}
	for i, op := range w.Ops {
		if op.Reject {
			continue
		}
		switch op.Kind {
		case scen.OpSchema:
			r := &Rec{Kind: "schema", ID: op.ID, Name: string(op.Name), Enc: string(op.Encoding), Data: op.Data.Bytes(), Src: i}
			c.Data = append(c.Data, r)
			if _, ok := schemas[op.ID]; !ok {
				schemas[op.ID] = r
				c.Schemas = append(c.Schemas, r)
			}
		case scen.OpChannel:
			r := &Rec{Kind: "channel", ID: op.ID, SchemaID: op.SchemaID, Topic: string(op.Topic), Enc: string(op.Encoding), Meta: SortedMeta(op.Meta), Src: i}
			c.Data = append(c.Data, r)
			if _, ok := channels[op.ID]; !ok {
				channels[op.ID] = r
				c.Channels = append(c.Channels, r)
			}
		case scen.OpMessage:
			r := &Rec{Kind: "message", ChannelID: op.ChannelID, Seq: op.Sequence, LogTime: op.LogTime, PubTime: op.PublishTime, Data: op.Data.Bytes(), Src: i}
			r.BoundChannel = channels[op.ChannelID]
			if r.BoundChannel != nil && r.BoundChannel.SchemaID != 0 {
				r.BoundSchema = schemas[r.BoundChannel.SchemaID]
			}
			c.Data = append(c.Data, r)
			c.Messages = append(c.Messages, r)
		case scen.OpAttachment:
			r := &Rec{Kind: "attachment", LogTime: op.LogTime, PubTime: op.PublishTime, Name: string(op.Name), Enc: string(op.Encoding), Data: op.Data.Bytes(), Src: i}
			r.DeclSize, r.HasSize = uint64(len(r.Data)), true
			c.Attachments = append(c.Attachments, r)
		case scen.OpMetadata:
			r := &Rec{Kind: "metadata", Name: string(op.Name), Meta: SortedMeta(op.Meta), Src: i}
			c.Metadata = append(c.Metadata, r)
		}
	}
	return c
}

// Select returns the messages a read restricted to topics and [start,end)
// must return, in file order. topics == nil/empty means no restriction.
func (c *Content) Select(topics []string, start, end uint64, unrestrictedEnd bool) []*Rec {
	var set map[string]bool
	if len(topics) > 0 {
		set = map[string]bool{}
		for _, t := range topics {
			set[t] = true
		}
	}
	var out []*Rec
	for _, m := range c.Messages {
		if set != nil && (m.BoundChannel == nil || !set[m.BoundChannel.Topic]) {
			continue
		}
		if m.LogTime < start {
			continue
		}
		if !unrestrictedEnd && m.LogTime >= end {
			continue
		}
		out = append(out, m)
	}
	return out
}

// Stats are the true aggregates.
type Stats struct {
	MessageCount    uint64
	SchemaCount     int
	ChannelCount    int
	AttachmentCount int
	MetadataCount   int
	Start, End      uint64
	PerChannel      map[uint16]uint64
}

func (c *Content) Stats() Stats {
	s := Stats{PerChannel: map[uint16]uint64{}}
	s.MessageCount = uint64(len(c.Messages))
	s.SchemaCount = len(c.Schemas)
	s.ChannelCount = len(c.Channels)
	s.AttachmentCount = len(c.Attachments)
	s.MetadataCount = len(c.Metadata)
	for i, m := range c.Messages {
		if i == 0 || m.LogTime < s.Start {
			s.Start = m.LogTime
		}
		if i == 0 || m.LogTime > s.End {
			s.End = m.LogTime
		}
		s.PerChannel[m.ChannelID]++
	}
	return s
}
