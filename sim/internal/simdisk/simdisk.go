// Package simdisk is the simulated storage: an append-only Sink that journals
// every write call and injects write faults, a Source that delivers a byte
// image under a delivery policy and a read/seek fault plan, and mutators that
// apply stored-byte faults to an image. Every decision is a pure function of
// the scenario (fault plan, delivery seed, absolute offset) - never of call
// timing - so a run replays exactly even when a decompressor reads from its
// own goroutine.
package simdisk

import (
	"errors"
	"fmt"
	"io"
	"sync"
	"syscall"

	"verif/sim/internal/scen"
)

// ErrInjected is the sentinel for injected I/O errors. It is deliberately not
// io.EOF / io.ErrUnexpectedEOF and wraps neither.
var ErrInjected = errors.New("simdisk: injected I/O error")

// ErrFull is the injected "disk full" error for short writes.
var ErrFull = fmt.Errorf("simdisk: injected short write: %w", syscall.ENOSPC)

// WriteEvent is one journal entry of the sink.
type WriteEvent struct {
	Call    int   // index of the Write call on the sink
	API     int   // index of the writer API call in flight (-1 = NewWriter)
	Off     int64 // sink length before the call
	Len     int   // len(p)
	N       int   // bytes accepted
	Faulted bool
}

// Sink is an append-only destination.
type Sink struct {
	mu          sync.Mutex
	Data        []byte
	Journal     []WriteEvent
	api         int
	fault       *scen.Fault
	fired       bool
	Fired       int // number of write calls that were failed by the plan
	discard     bool
	Total       int64
	KeepJournal bool
	calls       int
}

func NewSink(fault *scen.Fault) *Sink {
	return &Sink{api: -1, fault: fault, KeepJournal: true}
}

// NewDiscardSink keeps no bytes (streaming checks): only counts.
func NewDiscardSink() *Sink { return &Sink{api: -1, discard: true} }

// SetAPI tags subsequent writes with the API call index in flight.
func (s *Sink) SetAPI(i int) { s.mu.Lock(); s.api = i; s.mu.Unlock() }

func (s *Sink) Calls() int { return s.calls }

func (s *Sink) Write(p []byte) (int, error) {
	s.mu.Lock()
	defer s.mu.Unlock()
	call := s.calls
	s.calls++
	ev := WriteEvent{Call: call, API: s.api, Off: int64(len(s.Data)), Len: len(p)}
	if s.discard {
		ev.Off = s.Total
	}
	accept := len(p)
	var err error
	if f := s.fault; f != nil {
		hit := false
		if call == f.Call && !s.fired {
			hit = true
		} else if f.Perm && s.fired && call > f.Call {
			hit = true
		}
		if hit {
			first := !s.fired
			s.fired = true
			s.Fired++
			ev.Faulted = true
			switch f.Kind {
			case "write_err":
				accept = 0
				err = ErrInjected
			case "short_write":
				accept = 0
				if first {
					accept = f.Accept
					if accept > len(p) {
						accept = len(p)
					}
				}
				if f.Mode == "enospc" {
					err = ErrFull
				} else {
					err = io.ErrShortWrite
				}
			default:
				panic("simdisk: unknown sink fault kind " + f.Kind)
			}
		}
	}
	ev.N = accept
	if !s.discard {
		s.Data = append(s.Data, p[:accept]...)
	}
	s.Total += int64(accept)
	if s.KeepJournal {
		s.Journal = append(s.Journal, ev)
	}
	return accept, err
}

// Stats of a Source, all measured.
type SourceStats struct {
	Reads       int
	Seeks       int
	BytesOut    int64
	FaultFired  int   // reads/seeks that returned the injected error
	MaxOffRead  int64 // highest offset+1 delivered
	EventHash   uint64
	ShortReads  int // reads that returned fewer bytes than asked although more were available
	EOFWithData int
}

// Source delivers Data under a delivery policy and a fault plan. It only
// implements io.Reader; see SeekSource for the seekable variant.
type Source struct {
	mu    sync.Mutex
	Data  []byte
	pos   int64
	del   scen.Delivery
	fault *scen.Fault
	// pending error for Mode=="next_call"
	pendingErr    bool
	transientDone bool
	St            SourceStats
	// Touched, when non-nil, records which bytes were delivered.
	Touched []bool
}

func NewSource(data []byte, del scen.Delivery, fault *scen.Fault) *Source {
	if del.Kind == "" {
		del.Kind = "full"
	}
	return &Source{Data: data, del: del, fault: fault}
}

func (s *Source) deliverSize(off int64, want int, avail int) int {
	n := want
	if n > avail {
		n = avail
	}
	if n <= 1 {
		return n
	}
	switch s.del.Kind {
	case "full", "data_with_eof":
		return n
	case "one_byte":
		return 1
	case "halving":
		h := want / 2
		if h < 1 {
			h = 1
		}
		if h > n {
			h = n
		}
		return h
	case "hash_sizes", "hash_sizes_eof":
		h := scen.Mix(s.del.Seed, uint64(off))
		// bias to small sizes but allow everything up to n
		var k int
		switch h & 3 {
		case 0:
			k = 1 + int((h>>8)%7)
		case 1:
			k = 1 + int((h>>8)%64)
		default:
			k = 1 + int((h>>8)%uint64(n))
		}
		if k > n {
			k = n
		}
		return k
	default:
		panic("simdisk: unknown delivery kind " + s.del.Kind)
	}
}

func (s *Source) eofWithData() bool {
	return s.del.Kind == "data_with_eof" || s.del.Kind == "hash_sizes_eof"
}

func (s *Source) event(kind uint64, a, b, c int64) {
	// commutative so that reads issued from a decompressor goroutine at
	// different times do not change the hash
	s.St.EventHash += scen.Mix(kind, uint64(a), uint64(b), uint64(c))
}

func (s *Source) Read(p []byte) (int, error) {
	s.mu.Lock()
	defer s.mu.Unlock()
	s.St.Reads++
	if len(p) == 0 {
		return 0, nil
	}
	if f := s.fault; f != nil && f.Kind == "read_err_call" && (s.St.Reads == f.Call+1 || (f.Sticky && s.St.Reads > f.Call+1)) {
		// the medium fails on the (Call+1)-th Read call, wherever that call reads; sticky: for good
		s.St.FaultFired++
		s.event(3, s.pos, 0, 4)
		return 0, ErrInjected
	}
	if s.pendingErr {
		s.St.FaultFired++
		s.event(3, s.pos, 0, 1)
		if s.fault != nil && !s.fault.Sticky {
			s.pendingErr = false
			s.transientDone = true
		}
		return 0, ErrInjected
	}
	size := int64(len(s.Data))
	if s.pos >= size {
		if f := s.fault; f != nil && f.Kind == "read_err" && f.Off >= size && !s.transientDone {
			// an I/O error in place of the end of file
			s.St.FaultFired++
			if !f.Sticky {
				s.transientDone = true
			}
			s.event(3, s.pos, 0, 3)
			return 0, ErrInjected
		}
		s.event(1, s.pos, 0, 2)
		return 0, io.EOF
	}
	avail := int(size - s.pos)
	n := s.deliverSize(s.pos, len(p), avail)
	var err error
	if f := s.fault; f != nil && f.Kind == "read_err" && !s.transientDone {
		// byte f.Off is unreadable
		if s.pos <= f.Off && f.Off < s.pos+int64(n) {
			n = int(f.Off - s.pos)
			if f.Mode == "next_call" && n > 0 {
				s.pendingErr = true
			} else {
				err = ErrInjected
				s.St.FaultFired++
				if !f.Sticky {
					s.transientDone = true
				}
			}
		}
	}
	copy(p, s.Data[s.pos:s.pos+int64(n)])
	if s.Touched != nil {
		for i := s.pos; i < s.pos+int64(n); i++ {
			s.Touched[i] = true
		}
	}
	if n < len(p) && n < avail && err == nil {
		s.St.ShortReads++
	}
	s.event(1, s.pos, int64(n), 0)
	s.pos += int64(n)
	s.St.BytesOut += int64(n)
	if s.pos > s.St.MaxOffRead {
		s.St.MaxOffRead = s.pos
	}
	if err == nil && s.pos >= size && s.eofWithData() {
		s.St.EOFWithData++
		return n, io.EOF
	}
	return n, err
}

// SeekSource is a Source that also implements io.Seeker.
type SeekSource struct {
	*Source
}

func NewSeekSource(data []byte, del scen.Delivery, fault *scen.Fault) *SeekSource {
	return &SeekSource{NewSource(data, del, fault)}
}

func (s *SeekSource) Seek(offset int64, whence int) (int64, error) {
	s.mu.Lock()
	defer s.mu.Unlock()
	call := s.St.Seeks
	s.St.Seeks++
	if f := s.fault; f != nil && f.Kind == "seek_err" && (call == f.Call || (f.Sticky && call > f.Call)) {
		s.St.FaultFired++
		s.event(2, offset, int64(whence), 1)
		return 0, ErrInjected
	}
	var abs int64
	switch whence {
	case io.SeekStart:
		abs = offset
	case io.SeekCurrent:
		abs = s.pos + offset
	case io.SeekEnd:
		abs = int64(len(s.Data)) + offset
	default:
		return 0, errors.New("simdisk: invalid whence")
	}
	if abs < 0 {
		s.event(2, offset, int64(whence), 2)
		return 0, errors.New("simdisk: negative position")
	}
	s.pendingErr = false
	s.pos = abs
	s.event(2, offset, int64(whence), 0)
	return abs, nil
}

// ---- stored-byte faults ----------------------------------------------------

// Apply returns a mutated copy of img for a stored-byte fault.
func Apply(img []byte, f scen.Fault) []byte {
	out := make([]byte, len(img))
	copy(out, img)
	switch f.Kind {
	case "crash_truncate":
		return out[:f.Off]
	case "bit_flip":
		out[f.Off] ^= 1 << uint(f.Bit)
	case "overwrite":
		copy(out[f.Off:], f.Bytes)
	case "swap":
		a := append([]byte{}, out[f.Off:f.Off+f.Len]...)
		b := append([]byte{}, out[f.Off2:f.Off2+f.Len]...)
		copy(out[f.Off:], b)
		copy(out[f.Off2:], a)
	default:
		panic("simdisk: unknown image fault " + f.Kind)
	}
	return out
}
