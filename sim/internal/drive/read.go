package drive

import (
	"errors"
	"fmt"
	"io"
	"strings"

	"github.com/foxglove/mcap/go/mcap"
	"verif/sim/internal/model"
)

// LexSpec selects lexer options (pure data, part of scenarios).
type LexSpec struct {
	Validate    bool `json:"validate,omitempty"`
	EmitInvalid bool `json:"emit_invalid,omitempty"`
	EmitChunks  bool `json:"emit_chunks,omitempty"`
	AttachCB    bool `json:"attach_cb,omitempty"`
	ComputeCRC  bool `json:"compute_crc,omitempty"`
	NoDrain     bool `json:"no_drain,omitempty"` // callback does not read Data()
	SkipMagic   bool `json:"skip_magic,omitempty"`
	Custom      bool `json:"custom,omitempty"` // install the sim decompressors
	MaxRecord   int  `json:"max_record,omitempty"`
	MaxChunk    int  `json:"max_chunk,omitempty"`
	ReuseBuf    bool `json:"reuse_buf,omitempty"` // pass a reused buffer to Next instead of nil
	DrainChunk  int  `json:"drain_chunk,omitempty"`
	MaxTokens   int  `json:"max_tokens,omitempty"`
	NoOpts      bool `json:"no_opts,omitempty"`      // call NewLexer(r) with no options at all
	ParsedFirst bool `json:"parsed_first,omitempty"` // attachment callback asks ParsedCRC before ComputedCRC
	// AgainAfterErr: after Next returned an error, call it this many more times
	// (a consumer that polls again); outcomes are recorded in LexResult.Again
	AgainAfterErr int `json:"again_after_err,omitempty"`
}

func (s LexSpec) Options(cb func(*mcap.AttachmentReader) error) *mcap.LexerOptions {
	o := &mcap.LexerOptions{
		SkipMagic:                s.SkipMagic,
		ValidateChunkCRCs:        s.Validate,
		ComputeAttachmentCRCs:    s.ComputeCRC,
		EmitChunks:               s.EmitChunks,
		EmitInvalidChunks:        s.EmitInvalid,
		MaxDecompressedChunkSize: s.MaxChunk,
		MaxRecordSize:            s.MaxRecord,
	}
	if s.AttachCB {
		o.AttachmentCallback = cb
	}
	if s.Custom {
		o.Decompressors = Decompressors()
	}
	return o
}

// LexResult is what a lexer run returned.
type LexResult struct {
	NewErr error
	Recs   []*model.Rec // every token (and attachment callback) in order
	Err    error        // terminal error from Next (io.EOF = clean end)
	Panic  *PanicInfo
	// InvalidChunks counts TokenInvalidChunk tokens.
	InvalidChunks int
	// Mutated is non-empty when a value returned earlier was altered later.
	Mutated string
	// Again: outcome of each further call after the terminal error: "eof", "error", "data" or "panic: ..."
	Again []string
	Tokens  int
}

func (r *LexResult) CleanEOF() bool {
	return r.Panic == nil && r.NewErr == nil && errors.Is(r.Err, io.EOF)
}

// Terminal is a short classification of how the read ended.
func (r *LexResult) Terminal() string {
	switch {
	case r.Panic != nil:
		return "panic"
	case r.NewErr != nil:
		return "open_error"
	case r.Err == nil:
		return "none"
	case r.Err == io.EOF:
		return "eof"
	default:
		return "error"
	}
}

func clone(b []byte) []byte {
	out := make([]byte, len(b))
	copy(out, b)
	return out
}

func SchemaRec(s *mcap.Schema) *model.Rec {
	if s == nil {
		return nil
	}
	return &model.Rec{Kind: "schema", ID: s.ID, Name: s.Name, Enc: s.Encoding, Data: clone(s.Data)}
}

func ChannelRec(c *mcap.Channel) *model.Rec {
	if c == nil {
		return nil
	}
	return &model.Rec{Kind: "channel", ID: c.ID, SchemaID: c.SchemaID, Topic: c.Topic, Enc: c.MessageEncoding, Meta: model.SortedMap(c.Metadata)}
}

func MessageRec(m *mcap.Message) *model.Rec {
	return &model.Rec{Kind: "message", ChannelID: m.ChannelID, Seq: m.Sequence, LogTime: m.LogTime, PubTime: m.PublishTime, Data: clone(m.Data)}
}

func MetadataRec(m *mcap.Metadata) *model.Rec {
	return &model.Rec{Kind: "metadata", Name: m.Name, Meta: model.SortedMap(m.Metadata)}
}

type retained struct {
	idx  int
	live []byte // the slice as returned (aliases whatever the library aliases)
	copy []byte
}

var tokenKinds = map[mcap.TokenType]string{
	mcap.TokenHeader: "header", mcap.TokenFooter: "footer", mcap.TokenSchema: "schema", mcap.TokenChannel: "channel",
	mcap.TokenMessage: "message", mcap.TokenChunk: "chunk", mcap.TokenMessageIndex: "message_index",
	mcap.TokenChunkIndex: "chunk_index", mcap.TokenAttachmentIndex: "attachment_index", mcap.TokenStatistics: "statistics",
	mcap.TokenMetadata: "metadata", mcap.TokenMetadataIndex: "metadata_index", mcap.TokenSummaryOffset: "summary_offset",
	mcap.TokenDataEnd: "data_end", mcap.TokenInvalidChunk: "invalid_chunk",
}

// LexAll runs a lexer to its end.
func LexAll(src io.Reader, spec LexSpec) *LexResult {
	res := &LexResult{}
	var lexer *mcap.Lexer
	var keep []retained
	cb := func(ar *mcap.AttachmentReader) error {
		rec := &model.Rec{Kind: "attachment", LogTime: ar.LogTime, PubTime: ar.CreateTime, Name: ar.Name, Enc: ar.MediaType, DeclSize: ar.DataSize, HasSize: true}
		res.Recs = append(res.Recs, rec)
		if spec.NoDrain {
			rec.Kind = "attachment_undrained"
			return nil
		}
		var data []byte
		var err error
		if spec.DrainChunk > 0 {
			buf := make([]byte, spec.DrainChunk)
			for {
				n, e := ar.Data().Read(buf)
				data = append(data, buf[:n]...)
				if e != nil {
					if e != io.EOF {
						err = e
					}
					break
				}
			}
		} else {
			data, err = io.ReadAll(ar.Data())
		}
		rec.Data = data
		if err != nil {
			rec.Kind = "attachment_partial"
			return err
		}
		if uint64(len(data)) != ar.DataSize {
			// fewer bytes than declared: truncated; leave CRC unread
			rec.Kind = "attachment_partial"
			return nil
		}
		var computed, parsed uint32
		if spec.ParsedFirst {
			if parsed, err = ar.ParsedCRC(); err != nil {
				rec.Kind = "attachment_nocrc"
				return err
			}
			if computed, err = ar.ComputedCRC(); err != nil {
				return err
			}
		} else {
			if computed, err = ar.ComputedCRC(); err != nil {
				return err
			}
			if parsed, err = ar.ParsedCRC(); err != nil {
				rec.Kind = "attachment_nocrc"
				return err
			}
		}
		rec.CRC = parsed
		rec.HasCRC = true
		if spec.ComputeCRC && computed != parsed {
			rec.Kind = "attachment_crc_mismatch"
		}
		return nil
	}
	pi := Guard(func() {
		if spec.NoOpts {
			lexer, res.NewErr = mcap.NewLexer(src)
		} else {
			opts := spec.Options(cb)
			lexer, res.NewErr = mcap.NewLexer(src, opts)
			// the options value belongs to the caller, who reuses it for something else
			*opts = mcap.LexerOptions{}
		}
	})
	if pi != nil {
		res.Panic = pi
		return res
	}
	if res.NewErr != nil {
		return res
	}
	defer lexer.Close()
	var buf []byte
	if spec.ReuseBuf {
		buf = make([]byte, 0, 64)
	}
	var firstErr error
	pi = Guard(func() {
		for {
			if spec.MaxTokens > 0 && res.Tokens >= spec.MaxTokens {
				res.Err = fmt.Errorf("harness: token budget %d exhausted", spec.MaxTokens)
				return
			}
			var in []byte
			if spec.ReuseBuf {
				in = buf
			}
			tt, rec, err := lexer.Next(in)
			res.Tokens++
			if spec.ReuseBuf && cap(rec) > cap(buf) {
				buf = rec
			}
			if tt == mcap.TokenInvalidChunk {
				res.InvalidChunks++
				res.Recs = append(res.Recs, &model.Rec{Kind: "invalid_chunk"})
				continue
			}
			if err != nil {
				// the first error ends the read; a polling consumer calls a few more times
				if res.Err == nil {
					res.Err, firstErr = err, err
					if errors.Is(err, io.EOF) {
						return
					}
				} else {
					res.Again = append(res.Again, againOutcome(err))
				}
				if len(res.Again) >= spec.AgainAfterErr {
					return
				}
				continue
			}
			if res.Err != nil {
				res.Again = append(res.Again, "data")
			}
			kind, ok := tokenKinds[tt]
			if !ok {
				res.Err = fmt.Errorf("harness: unknown token type %d", tt)
				return
			}
			if !spec.ReuseBuf {
				keep = append(keep, retained{idx: len(res.Recs), live: rec, copy: clone(rec)})
			}
			var r *model.Rec
			switch tt {
			case mcap.TokenHeader:
				h, e := mcap.ParseHeader(rec)
				if e != nil {
					res.Err = fmt.Errorf("parse header: %w", e)
					return
				}
				r = &model.Rec{Kind: kind, Name: h.Profile, Enc: h.Library}
			case mcap.TokenSchema:
				s, e := mcap.ParseSchema(rec)
				if e != nil {
					res.Err = fmt.Errorf("parse schema: %w", e)
					return
				}
				r = SchemaRec(s)
			case mcap.TokenChannel:
				c, e := mcap.ParseChannel(rec)
				if e != nil {
					res.Err = fmt.Errorf("parse channel: %w", e)
					return
				}
				r = ChannelRec(c)
			case mcap.TokenMessage:
				m, e := mcap.ParseMessage(rec)
				if e != nil {
					res.Err = fmt.Errorf("parse message: %w", e)
					return
				}
				r = MessageRec(m)
			case mcap.TokenMetadata:
				m, e := mcap.ParseMetadata(rec)
				if e != nil {
					res.Err = fmt.Errorf("parse metadata: %w", e)
					return
				}
				r = MetadataRec(m)
			case mcap.TokenMessageIndex:
				mi, e := mcap.ParseMessageIndex(rec)
				if e != nil {
					res.Err = fmt.Errorf("parse message index: %w", e)
					return
				}
				// entries rendered as (log_time, offset) pairs; Name carries them so that a
				// padded and an unpadded record compare equal iff their entries do
				var sb strings.Builder
				for _, en := range mi.Entries() {
					fmt.Fprintf(&sb, "%d@%d,", en.Timestamp, en.Offset)
				}
				r = &model.Rec{Kind: kind, ChannelID: mi.ChannelID, Name: sb.String(), Data: clone(rec)}
			default:
				r = &model.Rec{Kind: kind, Data: clone(rec)}
			}
			res.Recs = append(res.Recs, r)
			if res.Err != nil && len(res.Again) >= spec.AgainAfterErr {
				return
			}
		}
	})
	res.Panic = pi
	if firstErr != nil && res.Err.Error() != firstErr.Error() {
		// a token handed out after the read had failed could not even be parsed
		res.Again = append(res.Again, "garbage: "+res.Err.Error())
		res.Err = firstErr
	}
	for _, k := range keep {
		if string(k.live) != string(k.copy) {
			res.Mutated = fmt.Sprintf("token %d (%s) changed after it was returned", k.idx, res.Recs[k.idx].Kind)
			break
		}
	}
	return res
}

// ReadSpec selects Reader.Messages options (pure data).
type ReadSpec struct {
	UseIndex  bool     `json:"use_index"`
	Order     int      `json:"order,omitempty"` // 0 file, 1 log time, 2 reverse
	Topics    []string `json:"topics,omitempty"`
	HasTopics bool     `json:"has_topics,omitempty"` // pass WithTopics even when the list is empty
	// window
	Window         string `json:"window,omitempty"` // "", "nanos", "nanos_rev" (Before first), "deprecated", "deprecated_rev", "start_only", "end_only"
	Start          uint64 `json:"start,omitempty"`
	End            uint64 `json:"end,omitempty"`
	MetaCB         bool   `json:"meta_cb,omitempty"`
	NextMode       string `json:"next_mode,omitempty"`        // "into_nil" (default), "next_nil", "into_reuse", "next_buf"
	OmitUsingIndex bool   `json:"omit_using_index,omitempty"` // rely on the default (index on)
	OrderFirst     bool   `json:"order_first,omitempty"`
	MaxMsgs        int    `json:"max_msgs,omitempty"`
	AgainAfterErr  int    `json:"again_after_err,omitempty"` // see LexSpec.AgainAfterErr
	InfoFirst      bool   `json:"info_first,omitempty"`      // the consumer asks the Reader for Info() before Messages()
}

// IterResult is what a message read returned.
type IterResult struct {
	OpenErr  error // NewReader
	MsgsErr  error // Messages()
	Msgs     []*model.Rec
	Err      error // terminal error from Next*
	Panic    *PanicInfo
	Metadata []*model.Rec // delivered to the callback
	Mutated  string
	Header   *model.Rec
	Iter     mcap.MessageIterator
	Reader   *mcap.Reader
	// AgainCalls: further calls to make after the terminal error; Again: their outcomes
	AgainCalls int
	Again      []string
	// AfterEach, when set, is invoked after every successful NextInto.
}

func (r *IterResult) Terminal() string {
	switch {
	case r.Panic != nil:
		return "panic"
	case r.OpenErr != nil:
		return "open_error"
	case r.MsgsErr != nil:
		return "messages_error"
	case r.Err == nil:
		return "none"
	case r.Err == io.EOF:
		return "eof"
	default:
		return "error"
	}
}

// FirstErr is the first non-EOF error of the read, or nil.
func (r *IterResult) FirstErr() error {
	switch {
	case r.OpenErr != nil:
		return r.OpenErr
	case r.MsgsErr != nil:
		return r.MsgsErr
	case r.Err != nil && r.Err != io.EOF:
		return r.Err
	}
	return nil
}

func (s ReadSpec) opts(metaCB func(*mcap.Metadata) error) []mcap.ReadOpt {
	var o []mcap.ReadOpt
	order := mcap.InOrder(mcap.ReadOrder(s.Order))
	if s.OrderFirst && s.UseIndex {
		if !s.OmitUsingIndex {
			o = append(o, mcap.UsingIndex(true))
		}
		o = append(o, order)
	} else {
		if !(s.OmitUsingIndex && s.UseIndex) {
			o = append(o, mcap.UsingIndex(s.UseIndex))
		}
		if s.Order != 0 {
			o = append(o, order)
		}
	}
	if len(s.Topics) > 0 || s.HasTopics {
		t := s.Topics
		if t == nil {
			t = []string{}
		}
		o = append(o, mcap.WithTopics(t))
	}
	switch s.Window {
	case "":
	case "nanos":
		o = append(o, mcap.AfterNanos(s.Start), mcap.BeforeNanos(s.End))
	case "nanos_rev":
		o = append(o, mcap.BeforeNanos(s.End), mcap.AfterNanos(s.Start))
	case "deprecated":
		o = append(o, mcap.After(int64(s.Start)), mcap.Before(int64(s.End)))
	case "deprecated_rev":
		o = append(o, mcap.Before(int64(s.End)), mcap.After(int64(s.Start)))
	case "start_only":
		o = append(o, mcap.AfterNanos(s.Start))
	case "end_only":
		o = append(o, mcap.BeforeNanos(s.End))
	case "dep_start_only":
		o = append(o, mcap.After(int64(s.Start)))
	case "dep_end_only":
		o = append(o, mcap.Before(int64(s.End)))
	default:
		panic("harness: unknown window spelling " + s.Window)
	}
	if s.MetaCB {
		o = append(o, mcap.WithMetadataCallback(metaCB))
	}
	return o
}

type keptMsg struct {
	idx      int
	s        *mcap.Schema
	c        *mcap.Channel
	m        *mcap.Message
	snapshot *model.Rec
}

func tripleRec(s *mcap.Schema, c *mcap.Channel, m *mcap.Message) *model.Rec {
	r := MessageRec(m)
	r.BoundChannel = ChannelRec(c)
	r.BoundSchema = SchemaRec(s)
	return r
}

// againOutcome classifies the error of a call made after the read already failed.
func againOutcome(err error) string {
	if errors.Is(err, io.EOF) {
		return "eof"
	}
	return "error"
}

// Iterate drains a message iterator.
func Iterate(it mcap.MessageIterator, mode string, max int, res *IterResult, after func(n int) error) {
	var kept []keptMsg
	reuse := &mcap.Message{}
	var buf []byte
	pi := Guard(func() {
		for {
			if max > 0 && len(res.Msgs) >= max {
				res.Err = fmt.Errorf("harness: message budget %d exhausted", max)
				return
			}
			var s *mcap.Schema
			var c *mcap.Channel
			var m *mcap.Message
			var err error
			switch mode {
			case "", "into_nil":
				s, c, m, err = it.NextInto(nil)
			case "next_nil":
				s, c, m, err = it.Next(nil)
			case "into_reuse":
				s, c, m, err = it.NextInto(reuse)
			case "next_buf":
				s, c, m, err = it.Next(buf)
				if m != nil && cap(m.Data) > cap(buf) {
					buf = m.Data[:0]
				}
			default:
				panic("harness: unknown next mode " + mode)
			}
			if err != nil {
				if res.Err == nil {
					res.Err = err
					if errors.Is(err, io.EOF) {
						return
					}
				} else {
					res.Again = append(res.Again, againOutcome(err))
				}
				if len(res.Again) >= res.AgainCalls {
					return
				}
				continue
			}
			if res.Err != nil {
				res.Again = append(res.Again, "data")
			}
			if m == nil || c == nil {
				res.Err = fmt.Errorf("harness-observed: iterator returned nil message/channel without error")
				return
			}
			r := tripleRec(s, c, m)
			if mode == "" || mode == "into_nil" || mode == "next_nil" {
				kept = append(kept, keptMsg{idx: len(res.Msgs), s: s, c: c, m: m, snapshot: r})
			}
			res.Msgs = append(res.Msgs, r)
			if res.Err != nil && len(res.Again) >= res.AgainCalls {
				return
			}
			if after != nil {
				if e := after(len(res.Msgs)); e != nil {
					res.Err = e
					return
				}
			}
		}
	})
	res.Panic = pi
	for _, k := range kept {
		now := tripleRec(k.s, k.c, k.m)
		if d := model.Diff(k.snapshot, now); d != "" {
			res.Mutated = fmt.Sprintf("message %d changed after it was returned: %s", k.idx, d)
			break
		}
	}
}

// ReadMessages opens a Reader over src and drains Messages(spec).
func ReadMessages(src io.Reader, spec ReadSpec) *IterResult {
	res := &IterResult{}
	var rd *mcap.Reader
	pi := Guard(func() { rd, res.OpenErr = mcap.NewReader(src) })
	if pi != nil {
		res.Panic = pi
		return res
	}
	if res.OpenErr != nil {
		return res
	}
	res.Reader = rd
	defer rd.Close()
	if h := rd.Header(); h != nil {
		res.Header = &model.Rec{Kind: "header", Name: h.Profile, Enc: h.Library}
	}
	cb := func(m *mcap.Metadata) error {
		res.Metadata = append(res.Metadata, MetadataRec(m))
		return nil
	}
	var it mcap.MessageIterator
	pi = Guard(func() {
		if spec.InfoFirst {
			_, _ = rd.Info() // an error (non-seekable source) is not the point here
		}
		it, res.MsgsErr = rd.Messages(spec.opts(cb)...)
	})
	if pi != nil {
		res.Panic = pi
		return res
	}
	if res.MsgsErr != nil {
		return res
	}
	res.Iter = it
	res.AgainCalls = spec.AgainAfterErr
	Iterate(it, spec.NextMode, spec.MaxMsgs, res, nil)
	return res
}
