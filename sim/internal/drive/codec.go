package drive

import (
	"bytes"
	"compress/flate"
	"encoding/binary"
	"errors"
	"io"

	"github.com/foxglove/mcap/go/mcap"
	"github.com/pierrec/lz4/v4"
	"verif/sim/internal/refmcap"
	"verif/sim/internal/scen"
)

// Simulated caller-supplied codecs. Each has a compressor
// (mcap.ResettableWriteCloser), a matching decompressor (mcap.ResettableReader)
// and a pure decode function for the reference decoder.
//
//   x-xor    stateless byte-wise xor
//   x-flate  compress/flate; buffers until Close
//   x-nonce  4-byte per-stream nonce written lazily at the first Write of each
//            stream (or at Close if nothing was written), body xor nonce bytes
//   x-eager  like x-nonce, but the preamble is written inside Reset - legal
//            for the interface (Reset hands over the destination)
//   byolz4   announces the built-in name "lz4": a real lz4 frame stream made with the
//            caller's own encoder settings

// ---- xor -------------------------------------------------------------------

type xorW struct{ w io.Writer }

func (x *xorW) Write(p []byte) (int, error) {
	q := make([]byte, len(p))
	for i, b := range p {
		q[i] = b ^ 0x5a
	}
	n, err := x.w.Write(q)
	return n, err
}
func (x *xorW) Close() error      { return nil }
func (x *xorW) Reset(w io.Writer) { x.w = w }

type xorR struct{ r io.Reader }

func (x *xorR) Read(p []byte) (int, error) {
	n, err := x.r.Read(p)
	for i := 0; i < n; i++ {
		p[i] ^= 0x5a
	}
	return n, err
}
func (x *xorR) Reset(r io.Reader) error { x.r = r; return nil }

// ---- flate -----------------------------------------------------------------

type flateW struct{ fw *flate.Writer }

func newFlateW() *flateW {
	fw, _ := flate.NewWriter(io.Discard, 6)
	return &flateW{fw}
}
func (f *flateW) Write(p []byte) (int, error) { return f.fw.Write(p) }
func (f *flateW) Close() error                { return f.fw.Close() }
func (f *flateW) Reset(w io.Writer)           { f.fw.Reset(w) }

type flateR struct{ fr io.ReadCloser }

func (f *flateR) Read(p []byte) (int, error) { return f.fr.Read(p) }
func (f *flateR) Reset(r io.Reader) error {
	if f.fr == nil {
		f.fr = flate.NewReader(r)
		return nil
	}
	return f.fr.(flate.Resetter).Reset(r, nil)
}

// ---- nonce -----------------------------------------------------------------

type nonceW struct {
	w       io.Writer
	counter uint32
	started bool
	eager   bool
}

func (n *nonceW) preamble() error {
	n.counter += 0x01020305
	var b [4]byte
	binary.LittleEndian.PutUint32(b[:], n.counter)
	n.started = true
	_, err := n.w.Write(b[:])
	return err
}
func (n *nonceW) Write(p []byte) (int, error) {
	if !n.started {
		if err := n.preamble(); err != nil {
			return 0, err
		}
	}
	key := byte(n.counter)
	q := make([]byte, len(p))
	for i, b := range p {
		q[i] = b ^ key
	}
	return n.w.Write(q)
}
func (n *nonceW) Close() error {
	if !n.started {
		return n.preamble()
	}
	return nil
}
func (n *nonceW) Reset(w io.Writer) {
	n.w = w
	n.started = false
	if n.eager {
		_ = n.preamble()
	}
}

type nonceR struct {
	r   io.Reader
	key byte
	got bool
}

func (n *nonceR) Read(p []byte) (int, error) {
	if !n.got {
		var b [4]byte
		if _, err := io.ReadFull(n.r, b[:]); err != nil {
			if errors.Is(err, io.EOF) {
				return 0, io.ErrUnexpectedEOF
			}
			return 0, err
		}
		n.key = b[0]
		n.got = true
	}
	c, err := n.r.Read(p)
	for i := 0; i < c; i++ {
		p[i] ^= n.key
	}
	return c, err
}
func (n *nonceR) Reset(r io.Reader) error { n.r = r; n.got = false; return nil }

// Compressor returns the custom compressor for a scenario codec name.
func Compressor(name string) mcap.CustomCompressor {
	var w mcap.ResettableWriteCloser
	switch name {
	case "xor", "xorlong":
		w = &xorW{}
	case "flate":
		w = newFlateW()
	case "nonce":
		w = &nonceW{}
	case "eager":
		w = &nonceW{eager: true}
	case "byolz4":
		// a caller's own lz4 encoder under the built-in format name (block checksums on, which
		// the library's encoder does not use): any reader decodes it, the bytes differ
		lw := lz4.NewWriter(io.Discard)
		_ = lw.Apply(lz4.BlockChecksumOption(true), lz4.CompressionLevelOption(lz4.Fast))
		w = lw
	default:
		panic("unknown custom codec " + name)
	}
	return mcap.NewCustomCompressor(mcap.CompressionFormat(scen.CustomFormat(name)), w)
}

// Decompressors returns lexer decompressors for all custom codecs.
func Decompressors() map[mcap.CompressionFormat]mcap.ResettableReader {
	return map[mcap.CompressionFormat]mcap.ResettableReader{
		"x-xor":              &xorR{},
		"x-xor-long-name-18": &xorR{},
		"x-flate":            &flateR{},
		"x-nonce":            &nonceR{},
		"x-eager":            &nonceR{},
	}
}

// RefDecompressors are the same codecs as pure functions for refmcap.
func RefDecompressors() map[string]refmcap.Decompressor {
	nonce := func(stored []byte, _ uint64) ([]byte, error) {
		if len(stored) < 4 {
			return nil, errors.New("nonce stream too short")
		}
		out := make([]byte, len(stored)-4)
		for i, b := range stored[4:] {
			out[i] = b ^ stored[0]
		}
		return out, nil
	}
	xor := func(stored []byte, _ uint64) ([]byte, error) {
		out := make([]byte, len(stored))
		for i, b := range stored {
			out[i] = b ^ 0x5a
		}
		return out, nil
	}
	return map[string]refmcap.Decompressor{
		"x-xor":              xor,
		"x-xor-long-name-18": xor,
		"x-flate": func(stored []byte, _ uint64) ([]byte, error) {
			return io.ReadAll(flate.NewReader(bytes.NewReader(stored)))
		},
		"x-nonce": nonce,
		"x-eager": nonce,
	}
}
