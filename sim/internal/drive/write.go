// Package drive runs the real library (go/mcap) against the simulated world
// and turns what it returns into model.Rec values.
package drive

import (
	"bytes"
	"fmt"
	"io"
	"runtime/debug"
	"strings"

	"github.com/foxglove/mcap/go/mcap"
	"verif/sim/internal/scen"
	"verif/sim/internal/simdisk"
)

// WriterOptions converts a scenario config.
func WriterOptions(c scen.Cfg) *mcap.WriterOptions {
	o := &mcap.WriterOptions{
		IncludeCRC:               c.IncludeCRC,
		Chunked:                  c.Chunked,
		ChunkSize:                c.ChunkSize,
		Compression:              mcap.CompressionFormat(c.Compression),
		CompressionLevel:         mcap.CompressionLevel(c.Level),
		SkipMessageIndexing:      c.SkipMessageIndexing,
		SkipStatistics:           c.SkipStatistics,
		SkipRepeatedSchemas:      c.SkipRepeatedSchemas,
		SkipRepeatedChannelInfos: c.SkipRepeatedChannelInfos,
		SkipAttachmentIndex:      c.SkipAttachmentIndex,
		SkipMetadataIndex:        c.SkipMetadataIndex,
		SkipChunkIndex:           c.SkipChunkIndex,
		SkipSummaryOffsets:       c.SkipSummaryOffsets,
		OverrideLibrary:          c.OverrideLibrary,
		SkipMagic:                c.SkipMagic,
	}
	if c.Custom != "" {
		o.Compressor = Compressor(c.Custom)
	}
	return o
}

// PanicInfo describes a recovered panic by value and top library frame.
type PanicInfo struct {
	Value string
	Func  string // top-most frame inside github.com/foxglove/mcap
	Stack string
}

func (p *PanicInfo) String() string {
	if p == nil {
		return ""
	}
	return fmt.Sprintf("panic in %s: %s", p.Func, p.Value)
}

// Guard runs f and converts a panic into PanicInfo.
func Guard(f func()) (pi *PanicInfo) {
	defer func() {
		if r := recover(); r != nil {
			st := string(debug.Stack())
			pi = &PanicInfo{Value: fmt.Sprint(r), Stack: st, Func: topLibFrame(st)}
		}
	}()
	f()
	return nil
}

func topLibFrame(stack string) string {
	lines := strings.Split(stack, "\n")
	seenPanic := false
	for _, l := range lines {
		if strings.HasPrefix(l, "panic(") {
			seenPanic = true
			continue
		}
		if !seenPanic || strings.HasPrefix(l, "\t") {
			continue
		}
		if strings.HasPrefix(l, "github.com/foxglove/mcap/") {
			fn := l
			if i := strings.LastIndex(fn, "("); i > 0 {
				fn = fn[:i]
			}
			return strings.TrimPrefix(fn, "github.com/foxglove/mcap/go/")
		}
	}
	// fall back to the first non-runtime frame after panic
	seenPanic = false
	for _, l := range lines {
		if strings.HasPrefix(l, "panic(") {
			seenPanic = true
			continue
		}
		if seenPanic && !strings.HasPrefix(l, "\t") && !strings.HasPrefix(l, "runtime.") && l != "" {
			if i := strings.LastIndex(l, "("); i > 0 {
				return l[:i]
			}
			return l
		}
	}
	return "unknown"
}

// AttachSrc wraps attachment data with an optional fault.
type AttachSrc struct {
	Data  []byte
	pos   int
	Fault *scen.Fault // kind attach_src_err (Off = after j bytes), attach_src_short (Off = deliver only j), attach_src_long (Len extra)
	Fired bool
	Chunk int // max bytes per Read (0 = all)
}

func (a *AttachSrc) Read(p []byte) (int, error) {
	if len(p) == 0 {
		return 0, nil
	}
	limit := len(a.Data)
	if f := a.Fault; f != nil {
		switch f.Kind {
		case "attach_src_err", "attach_src_short":
			if int(f.Off) < limit {
				limit = int(f.Off)
			}
		case "attach_src_long":
			limit = len(a.Data) + int(f.Len)
		}
	}
	if a.pos >= limit {
		if f := a.Fault; f != nil {
			a.Fired = true
			if f.Kind == "attach_src_err" {
				return 0, simdisk.ErrInjected
			}
		}
		return 0, io.EOF
	}
	n := limit - a.pos
	if n > len(p) {
		n = len(p)
	}
	if a.Chunk > 0 && n > a.Chunk {
		n = a.Chunk
	}
	for i := 0; i < n; i++ {
		if a.pos+i < len(a.Data) {
			p[i] = a.Data[a.pos+i]
		} else {
			p[i] = 0xEE
		}
	}
	a.pos += n
	return n, nil
}

// WriteResult is everything observable from a writer run.
type WriteResult struct {
	NewErr   error
	NewPanic *PanicInfo
	// per API call: index 0 = WriteHeader, 1..len(ops) = ops, last = Close
	Errs   []error
	Panics []*PanicInfo
	// sink length after each API call returned (same indexing)
	LenAfter []int64
	Sink     *simdisk.Sink
	Stats    *mcap.Statistics
	Writer   *mcap.Writer
	AttSrcs  map[int]*AttachSrc
	rejects  map[int]bool // API call indexes that must be refused
}

type WriteOpts struct {
	StopOnError bool
	// AttachFault applies to the attachment written by op index AttachOp.
	AttachFault *scen.Fault
	AttachOp    int
	// Stage: stop after this many API calls (0 = run all). Used by schedulers.
	DeclaredSizeDelta int64 // added to DataSize of the faulted attachment (to model a lying size)
	// Options, when set, is handed to NewWriter instead of a fresh value built from the
	// config (a caller reusing one options value for several writers)
	Options *mcap.WriterOptions
}

// WriterSteps returns the writer run as a list of single API-call closures so
// that a scheduler can interleave several instances. Call them in order.
func WriterSteps(cfg scen.Cfg, wl scen.Workload, sink *simdisk.Sink, opt WriteOpts) (*WriteResult, []func()) {
	res := &WriteResult{Sink: sink, AttSrcs: map[int]*AttachSrc{}, rejects: map[int]bool{}}
	for i, op := range wl.Ops {
		if op.Reject {
			res.rejects[i+1] = true
		}
	}
	var w *mcap.Writer
	dead := false
	var steps []func()
	steps = append(steps, func() {
		sink.SetAPI(-1)
		res.NewPanic = Guard(func() {
			o := opt.Options
			if o == nil {
				o = WriterOptions(cfg)
			}
			w, res.NewErr = mcap.NewWriter(sink, o)
		})
		if res.NewErr != nil || res.NewPanic != nil || w == nil {
			dead = true
		}
		res.Writer = w
	})
	call := func(i int, f func() error) func() {
		return func() {
			if dead {
				return
			}
			sink.SetAPI(i)
			var err error
			pi := Guard(func() { err = f() })
			res.Errs = append(res.Errs, err)
			res.Panics = append(res.Panics, pi)
			res.LenAfter = append(res.LenAfter, int64(len(sink.Data)))
			if (err != nil || pi != nil) && opt.StopOnError {
				dead = true
			}
		}
	}
	steps = append(steps, call(0, func() error {
		return w.WriteHeader(&mcap.Header{Profile: string(wl.Profile), Library: string(wl.Library)})
	}))
	for i := range wl.Ops {
		i := i
		op := wl.Ops[i]
		steps = append(steps, call(i+1, func() error {
			switch op.Kind {
			case scen.OpSchema:
				return w.WriteSchema(&mcap.Schema{ID: op.ID, Name: string(op.Name), Encoding: string(op.Encoding), Data: op.Data.Bytes()})
			case scen.OpChannel:
				return w.WriteChannel(&mcap.Channel{ID: op.ID, SchemaID: op.SchemaID, Topic: string(op.Topic), MessageEncoding: string(op.Encoding), Metadata: scen.MapOf(op.Meta)})
			case scen.OpMessage:
				return w.WriteMessage(&mcap.Message{ChannelID: op.ChannelID, Sequence: op.Sequence, LogTime: op.LogTime, PublishTime: op.PublishTime, Data: op.Data.Bytes()})
			case scen.OpAttachment:
				data := op.Data.Bytes()
				src := &AttachSrc{Data: data}
				size := uint64(len(data))
				if opt.AttachFault != nil && opt.AttachOp == i {
					src.Fault = opt.AttachFault
				}
				res.AttSrcs[i] = src
				return w.WriteAttachment(&mcap.Attachment{LogTime: op.LogTime, CreateTime: op.PublishTime, Name: string(op.Name), MediaType: string(op.Encoding), DataSize: size, Data: src})
			case scen.OpMetadata:
				return w.WriteMetadata(&mcap.Metadata{Name: string(op.Name), Metadata: scen.MapOf(op.Meta)})
			}
			panic("harness: unknown op kind " + op.Kind)
		}))
	}
	steps = append(steps, call(len(wl.Ops)+1, func() error {
		err := w.Close()
		if w.Statistics != nil {
			st := *w.Statistics
			st.ChannelMessageCounts = map[uint16]uint64{}
			for k, v := range w.Statistics.ChannelMessageCounts {
				st.ChannelMessageCounts[k] = v
			}
			res.Stats = &st
		}
		return err
	}))
	return res, steps
}

// RunWriter runs the whole workload.
func RunWriter(cfg scen.Cfg, wl scen.Workload, sink *simdisk.Sink, opt WriteOpts) *WriteResult {
	res, steps := WriterSteps(cfg, wl, sink, opt)
	for _, s := range steps {
		s()
	}
	return res
}

// FirstProblem returns the first error or panic of a fault-free run ("" if none).
func (r *WriteResult) FirstProblem() string {
	if r.NewPanic != nil {
		return "NewWriter " + r.NewPanic.String()
	}
	if r.NewErr != nil {
		return "NewWriter error: " + r.NewErr.Error()
	}
	for i := range r.Errs {
		if r.Panics[i] != nil {
			return fmt.Sprintf("api call %d %s", i, r.Panics[i].String())
		}
		if r.rejects[i] {
			if r.Errs[i] == nil {
				return fmt.Sprintf("api call %d must be refused (unknown channel / schema, schema id 0) but returned nil", i)
			}
			continue
		}
		if r.Errs[i] != nil {
			return fmt.Sprintf("api call %d error: %v", i, r.Errs[i])
		}
	}
	return ""
}

// Image runs a fault-free write and returns the bytes.
func Image(cfg scen.Cfg, wl scen.Workload) ([]byte, *WriteResult) {
	sink := simdisk.NewSink(nil)
	res := RunWriter(cfg, wl, sink, WriteOpts{})
	return bytes.Clone(sink.Data), res
}
