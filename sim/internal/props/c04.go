package props

import (
	"fmt"
	"sort"

	"pgregory.net/rapid"
	"verif/sim/internal/drive"
	"verif/sim/internal/gen"
	"verif/sim/internal/model"
	"verif/sim/internal/runner"
	"verif/sim/internal/scen"
	"verif/sim/internal/simdisk"
)

type c04 struct{ base }

func init() {
	runner.Register(&c04{base{
		id: "C04", level: "exploration",
		rule: "seeded search over written files x topic sets (none, empty list, unknown, shared by several channels, channel without messages) x windows [s,e) with corners taken from the file's own message times +-1, 0 and 2^64-1, s=e x option spellings (nanosecond and deprecated int64 options, either argument order, start-only, end-only) x reader modes (scan, indexed in 3 orders) x benign delivery; oracle = filter(model). non-trivial: >=2 messages and the selection is neither empty nor everything, or a boundary equals a message time; distinct by (mode, order, spelling, topic class, window class, config class)",
		assumptions: []string{
			"deprecated int64 options are exercised with values 0..2^63-1 only",
			"indexed modes are run on files whose summary keeps chunk indexes and repeated schemas/channels; other files are read by the scan",
		},
		batches: map[string]int{"quick": 48, "thorough": 96},
		checks:  map[string]int{"quick": 150, "thorough": 250},
	}})
}

func (p *c04) Draw(t *rapid.T, tier string) *runner.Scenario {
	lim := limitsFor(tier)
	lim.NoCustom = true
	lim.MaxPayload = 100
	lim.NoAttach = true
	lim.NoMetadata = true
	wl := gen.Workload(t, lim)
	mode := pick(t, "mode", "scan", "indexed", "indexed", "indexed")
	if mode == "indexed" {
		lim.ForceChunked = true
		lim.ForceIndexed = true
	}
	cfg := gen.Cfg(t, lim)
	cfg.SkipMagic = false
	if mode == "indexed" && cfg.ChunkSize == 0 {
		cfg.ChunkSize = 64
	}
	rd := drive.ReadSpec{UseIndex: mode == "indexed"}
	if mode == "indexed" {
		rd.Order = rapid.IntRange(0, 2).Draw(t, "order")
		rd.OmitUsingIndex = rapid.Bool().Draw(t, "omit_using_index")
	}
	// topics
	var topics []string
	seen := map[string]bool{}
	for _, o := range wl.Ops {
		if o.Kind == scen.OpChannel && !seen[string(o.Topic)] {
			seen[string(o.Topic)] = true
			topics = append(topics, string(o.Topic))
		}
	}
	switch pick(t, "topic_class", "none", "none", "empty_list", "unknown", "subset", "subset", "subset", "all_plus_unknown") {
	case "none":
	case "empty_list":
		rd.HasTopics = true
	case "unknown":
		rd.Topics = []string{"/no/such/topic"}
	case "subset":
		for _, tp := range topics {
			if rapid.Bool().Draw(t, "topic_in") {
				rd.Topics = append(rd.Topics, tp)
			}
		}
		if len(rd.Topics) == 0 && len(topics) > 0 {
			rd.Topics = []string{topics[0]}
		}
	case "all_plus_unknown":
		rd.Topics = append(append([]string{}, topics...), "/no/such/topic")
	}
	// window corners from the file's own message times
	corners := []uint64{0, 1<<64 - 1}
	for _, o := range wl.Ops {
		if o.Kind == scen.OpMessage {
			corners = append(corners, o.LogTime)
			if o.LogTime > 0 {
				corners = append(corners, o.LogTime-1)
			}
			if o.LogTime < 1<<64-1 {
				corners = append(corners, o.LogTime+1)
			}
		}
	}
	sort.Slice(corners, func(i, j int) bool { return corners[i] < corners[j] })
	a := corners[rapid.IntRange(0, len(corners)-1).Draw(t, "win_a")]
	b := corners[rapid.IntRange(0, len(corners)-1).Draw(t, "win_b")]
	if a > b {
		a, b = b, a
	}
	if rapid.IntRange(0, 7).Draw(t, "win_eq") == 0 {
		b = a
	}
	rd.Window = pick(t, "spelling", "", "nanos", "nanos", "nanos_rev", "deprecated", "deprecated_rev", "start_only", "end_only", "dep_start_only", "dep_end_only")
	rd.Start, rd.End = a, b
	switch rd.Window {
	case "deprecated", "deprecated_rev", "dep_start_only", "dep_end_only":
		// int64 options cannot express more
		if rd.Start > 1<<63-1 {
			rd.Start = 1<<63 - 1
		}
		if rd.End > 1<<63-1 {
			rd.End = 1<<63 - 1
		}
	}
	del := gen.Delivery(t)
	return &runner.Scenario{Cfg: &cfg, WL: &wl, Delivery: &del, Read: &rd, Mode: mode}
}

// windowOf returns the window a spelling means.
func windowOf(rd *drive.ReadSpec) (start, end uint64, unboundedEnd bool) {
	switch rd.Window {
	case "":
		return 0, 0, true
	case "start_only", "dep_start_only":
		return rd.Start, 0, true
	case "end_only", "dep_end_only":
		return 0, rd.End, false
	default:
		return rd.Start, rd.End, false
	}
}

func (p *c04) Check(sc *runner.Scenario, st *runner.Stats, pin string) *runner.Violation {
	w, problem := build(*sc.Cfg, *sc.WL)
	st.Evaluations++
	st.Add("event.api_calls", int64(len(w.wres.Errs)+1))
	st.Event(uint64(len(w.image)))
	if problem != "" {
		return viol(sc, "unexpected_error", "fault-free write failed: %s", problem)
	}
	c := w.content
	rd := sc.Read
	start, end, unbounded := windowOf(rd)
	want := c.Select(rd.Topics, start, end, unbounded)
	// classes for coverage
	topicClass := "none"
	switch {
	case rd.HasTopics && len(rd.Topics) == 0:
		topicClass = "empty_list"
	case len(rd.Topics) > 0:
		topicClass = "some"
	}
	boundaryHit := false
	for _, m := range c.Messages {
		if rd.Window != "" && (m.LogTime == start || (!unbounded && m.LogTime == end)) {
			boundaryHit = true
		}
	}
	winClass := fmt.Sprintf("b%v/e%v/z%v/m%v", boundaryHit, len(want) == 0, start == 0, !unbounded && end == 1<<64-1)
	if len(c.Messages) >= 2 && ((len(want) > 0 && len(want) < len(c.Messages)) || boundaryHit) {
		st.DistinctCase(fmt.Sprintf("%s|o%d|%s|%s|%s|%s", sc.Mode, rd.Order, rd.Window, topicClass, winClass, gen.CfgClass(*sc.Cfg)))
	}
	if boundaryHit {
		st.Inc("probe.boundary_equals_message_time")
	}
	if rd.Window != "" && start == end && !unbounded {
		st.Inc("probe.empty_window")
	}
	if hasMaxTime(*sc.WL) {
		st.Inc("probe.max_timestamp")
	}
	if sc.Mode == "indexed" && len(c.Channels) == 0 && rd.Order != 0 {
		// no channel was ever written: the summary cannot say "no messages", and a
		// time-ordered read may legitimately report that no index is usable (C02's
		// fall-back-or-error clause); nothing to select from anyway
		st.Inc("skipped.no_channels_time_order")
		return nil
	}
	src := simdisk.NewSeekSource(w.image, *sc.Delivery, nil)
	ir := drive.ReadMessages(src, *rd)
	st.Evaluations++
	st.Add("event.source_reads", int64(src.St.Reads))
	st.Add("event.source_seeks", int64(src.St.Seeks))
	st.Event(src.St.EventHash, uint64(len(ir.Msgs)))
	if ir.Panic != nil {
		return viol(sc, "panic", "%s", ir.Panic)
	}
	if ir.MsgsErr != nil {
		// an option constructor rejected a window that is well-formed (start <= end)
		if pinned(pin, "spelling_disagrees") {
			return viol(sc, "spelling_disagrees", "Messages() rejected window [%d,%d) spelled %q: %v", rd.Start, rd.End, rd.Window, ir.MsgsErr)
		}
		return nil
	}
	if ir.Terminal() != "eof" {
		return viol(sc, "unexpected_error", "read ended with %s: %v", ir.Terminal(), ir.FirstErr())
	}
	// exact comparison
	var d string
	if rd.Order == 0 {
		d = model.DiffSeq(want, ir.Msgs)
	} else {
		d = sameMultiset(want, ir.Msgs)
		if d == "" {
			d = monotone(ir.Msgs, rd.Order)
		}
	}
	if d == "" {
		return nil
	}
	// classify: missing / extra
	wantKeys := map[string]int{}
	for _, m := range want {
		wantKeys[msgKey(m)]++
	}
	gotKeys := map[string]int{}
	for _, m := range ir.Msgs {
		gotKeys[msgKey(m)]++
	}
	clause := "order"
	for _, m := range want {
		if gotKeys[msgKey(m)] < wantKeys[msgKey(m)] {
			clause = "missing"
			if rd.Window == "" && len(rd.Topics) == 0 {
				clause = "unrestricted_read_drops"
			}
			d = fmt.Sprintf("message seq=%d log_time=%d topic=%q selected by topics=%v window=[%d,%d) unbounded_end=%v (%q) was not returned; %s", m.Seq, m.LogTime, m.BoundChannel.Topic, rd.Topics, start, end, unbounded, rd.Window, d)
			break
		}
	}
	if clause == "order" {
		for _, m := range ir.Msgs {
			if gotKeys[msgKey(m)] > wantKeys[msgKey(m)] {
				clause = "extra"
				topic := ""
				if m.BoundChannel != nil {
					topic = m.BoundChannel.Topic
				}
				d = fmt.Sprintf("message seq=%d log_time=%d topic=%q returned but not selected by topics=%v window=[%d,%d) unbounded_end=%v (%q); %s", m.Seq, m.LogTime, topic, rd.Topics, start, end, unbounded, rd.Window, d)
				break
			}
		}
	}
	if pinned(pin, clause) {
		return viol(sc, clause, "%s mode order %d: %s", sc.Mode, rd.Order, d)
	}
	return nil
}
