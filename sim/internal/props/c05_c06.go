package props

import (
	"strings"

	"pgregory.net/rapid"
	"verif/sim/internal/gen"
	"verif/sim/internal/refmcap"
	"verif/sim/internal/runner"
)

type c05 struct{ base }
type c06 struct{ base }

func init() {
	runner.Register(&c05{base{
		id: "C05", level: "exploration",
		rule: "seeded search over writer call sequences x configurations; every produced image is decoded and validated by refmcap (spec-derived, shares no code with go/mcap): grammar plus every pointer compared with the bytes it designates. non-trivial: >=2 record kinds, >=1 message, (if chunked) >=2 chunks; distinct by (config class, op-shape class, which index kinds are present)",
		assumptions: []string{
			"refmcap is pinned by regenerating the 416 conformance binaries and matching their Git-LFS sha256 (selftest)",
			"a non-zero summary_offset_start that designates the (empty) place where the offset section would begin is accepted",
			"spec MUSTs that a caller-chosen Skip* flag switches off (repeat channels when statistics carry per-channel counts) are not part of the property's grammar list and are not reported",
		},
		batches: map[string]int{"quick": 48, "thorough": 96},
		checks:  map[string]int{"quick": 150, "thorough": 250},
	}})
	runner.Register(&c06{base{
		id: "C06", level: "exploration",
		rule: "seeded search over writer call sequences x configurations; data-section, summary, chunk and attachment CRCs of every produced image are recomputed from the file bytes by refmcap over the byte ranges the spec defines. non-trivial: >=1 chunk or attachment and >=1 message; distinct by (config class, op-shape class)",
		assumptions: []string{
			"a true CRC of 0 (p=2^-32) is indistinguishable from 'not available'",
			"summary CRC covers from the end of DataEnd through the footer's summary_offset_start field even when the footer says summary_start=0",
		},
		batches: map[string]int{"quick": 48, "thorough": 96},
		checks:  map[string]int{"quick": 150, "thorough": 250},
	}})
}

func drawWC(t *rapid.T, tier string) *runner.Scenario {
	lim := limitsFor(tier)
	wl := gen.Workload(t, lim)
	cfg := gen.Cfg(t, lim)
	return &runner.Scenario{Cfg: &cfg, WL: &wl}
}

func (p *c05) Draw(t *rapid.T, tier string) *runner.Scenario { return drawWC(t, tier) }
func (p *c06) Draw(t *rapid.T, tier string) *runner.Scenario {
	sc := drawWC(t, tier)
	if rapid.IntRange(0, 3).Draw(t, "force_crc") != 0 {
		sc.Cfg.IncludeCRC = true
	}
	return sc
}

func presentKinds(f *refmcap.File) string {
	have := map[byte]bool{}
	for _, r := range f.Records {
		have[r.Op] = true
	}
	var sb strings.Builder
	for _, op := range []byte{refmcap.OpChunk, refmcap.OpMessageIndex, refmcap.OpChunkIndex, refmcap.OpAttachmentIndex, refmcap.OpMetadataIndex, refmcap.OpStatistics, refmcap.OpSummaryOffset} {
		if have[op] {
			sb.WriteByte('1')
		} else {
			sb.WriteByte('0')
		}
	}
	return sb.String()
}

func (p *c05) Check(sc *runner.Scenario, st *runner.Stats, pin string) *runner.Violation {
	w, problem := build(*sc.Cfg, *sc.WL)
	st.Evaluations++
	st.Add("event.api_calls", int64(len(w.wres.Errs)+1))
	st.Add("event.sink_writes", int64(w.wres.Sink.Calls()))
	st.Event(uint64(len(w.image)), uint64(w.wres.Sink.Calls()))
	if problem != "" {
		return viol(sc, "unexpected_error", "fault-free write failed: %s", problem)
	}
	if w.fileErr != nil {
		return viol(sc, "grammar:framing", "reference decoder cannot frame the file: %v", w.fileErr)
	}
	// append-only: sink offsets in the journal are contiguous
	var off int64
	for _, ev := range w.wres.Sink.Journal {
		if ev.Off != off {
			return viol(sc, "grammar:append_only", "sink write %d at offset %d, expected %d", ev.Call, ev.Off, off)
		}
		off += int64(ev.N)
	}
	chunks := w.chunkCount()
	if kindsOf(*sc.WL) >= 2 && len(w.content.Messages) >= 1 && (!sc.Cfg.Chunked || chunks >= 2) {
		st.DistinctCase(gen.CfgClass(*sc.Cfg) + "|" + gen.Shape(*sc.WL) + "|" + presentKinds(w.file))
	}
	for _, r := range w.file.Records {
		switch r.Op {
		case refmcap.OpChunk:
			st.Inc("probe.chunk")
			hasMsg := false
			for _, in := range r.V.(*refmcap.Chunk).Inner {
				if in.Op == refmcap.OpMessage {
					hasMsg = true
				}
			}
			if !hasMsg {
				st.Inc("probe.chunk_without_messages")
			}
		case refmcap.OpMessageIndex:
			st.Inc("probe.message_index")
		case refmcap.OpChunkIndex:
			st.Inc("probe.chunk_index")
		case refmcap.OpAttachmentIndex:
			st.Inc("probe.attachment_index")
		case refmcap.OpMetadataIndex:
			st.Inc("probe.metadata_index")
		case refmcap.OpSummaryOffset:
			st.Inc("probe.summary_offset")
		}
	}
	issues := refmcap.Validate(w.file)
	for _, is := range issues {
		if pinned(pin, is.Clause) {
			return viol(sc, is.Clause, "%s", is.Detail)
		}
	}
	return nil
}

func (p *c06) Check(sc *runner.Scenario, st *runner.Stats, pin string) *runner.Violation {
	w, problem := build(*sc.Cfg, *sc.WL)
	st.Evaluations++
	st.Add("event.api_calls", int64(len(w.wres.Errs)+1))
	st.Add("event.sink_writes", int64(w.wres.Sink.Calls()))
	st.Event(uint64(len(w.image)), uint64(w.wres.Sink.Calls()))
	if problem != "" {
		return viol(sc, "unexpected_error", "fault-free write failed: %s", problem)
	}
	if w.fileErr != nil {
		return viol(sc, "unexpected_error", "reference decoder cannot frame the file: %v", w.fileErr)
	}
	nAtt := len(w.content.Attachments)
	chunks := w.chunkCount()
	if (chunks >= 1 || nAtt >= 1) && len(w.content.Messages) >= 1 {
		st.DistinctCase(gen.CfgClass(*sc.Cfg) + "|" + gen.Shape(*sc.WL))
	}
	if sc.Cfg.IncludeCRC {
		st.Inc("probe.crc_enabled")
		st.Add("probe.chunk_crcs_checked", int64(chunks))
	} else {
		st.Inc("probe.crc_disabled")
	}
	st.Add("probe.attachment_crcs_checked", int64(nAtt))
	issues, _ := refmcap.CheckCRCs(w.image, w.file, sc.Cfg.IncludeCRC)
	for _, is := range issues {
		if pinned(pin, is.Clause) {
			return viol(sc, is.Clause, "%s", is.Detail)
		}
	}
	return nil
}
