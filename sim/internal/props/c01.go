package props

import (
	"io"
	"strings"

	"pgregory.net/rapid"
	"verif/sim/internal/drive"
	"verif/sim/internal/gen"
	"verif/sim/internal/model"
	"verif/sim/internal/runner"
	"verif/sim/internal/simdisk"
)

type c01 struct{ base }

func init() {
	runner.Register(&c01{base{
		id: "C01", level: "exploration",
		rule: "seeded search (rapid, swarm knobs) over legal writer call sequences x writer configurations x benign delivery policies; real Writer into the simulated sink, real Lexer and non-indexed iterator over the simulated source; oracle = reference model per record kind. non-trivial: >=2 record kinds, >=1 message and (if chunked) >=2 chunks; distinct by (config class, op-shape class, delivery kind, reader mode)",
		assumptions: []string{
			"custom codecs are read back through the lexer only (Reader offers no way to pass a decompressor)",
			"files with the leading magic skipped are read through the lexer only (NewReader has no SkipMagic)",
			"header library without OverrideLibrary is only required to end with the caller's string",
		},
		batches: map[string]int{"quick": 48, "thorough": 96},
		checks:  map[string]int{"quick": 150, "thorough": 250},
	}})
}

func (p *c01) Draw(t *rapid.T, tier string) *runner.Scenario {
	lim := limitsFor(tier)
	wl := gen.Workload(t, lim)
	cfg := gen.Cfg(t, lim)
	del := gen.Delivery(t)
	lex := drive.LexSpec{
		Validate:   rapid.Bool().Draw(t, "lex.validate"),
		AttachCB:   true,
		ComputeCRC: true,
		Custom:     true,
		SkipMagic:  cfg.SkipMagic,
		ReuseBuf:   rapid.Bool().Draw(t, "lex.reuse"),
		DrainChunk: pick(t, "lex.drain", 0, 1, 7, 4096),
	}
	rd := drive.ReadSpec{UseIndex: false, NextMode: pick(t, "read.next", "into_nil", "next_nil", "into_reuse", "next_buf"), MetaCB: true}
	mode := pick(t, "read.seekable", "seekable", "stream")
	return &runner.Scenario{Cfg: &cfg, WL: &wl, Delivery: &del, Lex: &lex, Read: &rd, Mode: mode}
}

func pick[T any](t *rapid.T, label string, vals ...T) T {
	return vals[rapid.IntRange(0, len(vals)-1).Draw(t, label)]
}

func (p *c01) Check(sc *runner.Scenario, st *runner.Stats, pin string) *runner.Violation {
	w, problem := build(*sc.Cfg, *sc.WL)
	st.Evaluations++
	st.Add("event.api_calls", int64(len(w.wres.Errs)+1))
	st.Add("event.sink_writes", int64(w.wres.Sink.Calls()))
	st.Event(uint64(len(w.image)), uint64(w.wres.Sink.Calls()))
	if problem != "" {
		return viol(sc, "unexpected_error", "fault-free write failed: %s", problem)
	}
	c := w.content
	chunks := w.chunkCount()
	if kindsOf(*sc.WL) >= 2 && len(c.Messages) >= 1 && (!sc.Cfg.Chunked || chunks >= 2) {
		st.DistinctCase(gen.CfgClass(*sc.Cfg) + "|" + gen.Shape(*sc.WL) + "|" + sc.Delivery.Kind + "|" + sc.Read.NextMode + "|" + sc.Mode)
	}
	if chunks >= 2 {
		st.Inc("probe.multi_chunk")
	}
	if sc.Cfg.Custom != "" && sc.Cfg.Chunked {
		st.Inc("probe.custom_codec")
	}
	if sc.Cfg.SkipMagic {
		st.Inc("probe.skip_magic")
	}
	if hasMaxTime(*sc.WL) {
		st.Inc("probe.max_timestamp")
	}

	// ---- lexer ------------------------------------------------------------
	src := simdisk.NewSource(w.image, *sc.Delivery, nil)
	lr := drive.LexAll(src, *sc.Lex)
	st.Evaluations++
	st.Add("event.source_reads", int64(src.St.Reads))
	st.Add("event.short_reads", int64(src.St.ShortReads))
	st.Event(src.St.EventHash, uint64(len(lr.Recs)))
	if lr.Panic != nil {
		return viol(sc, "panic", "lexer: %s", lr.Panic)
	}
	if !lr.CleanEOF() {
		return viol(sc, "unexpected_error", "lexer ended with %s (new=%v err=%v) after %d tokens", lr.Terminal(), lr.NewErr, lr.Err, len(lr.Recs))
	}
	if lr.Mutated != "" {
		return viol(sc, "retained_value_mutated", "lexer: %s", lr.Mutated)
	}
	// header
	hdrs := project(lr.Recs, "header")
	if len(hdrs) != 1 || lr.Recs[0].Kind != "header" {
		return viol(sc, "lexer_stream_mismatch", "expected exactly one header token first, got %d", len(hdrs))
	}
	if hdrs[0].Name != c.Profile {
		return viol(sc, "lexer_stream_mismatch", "header profile %q, wrote %q", hdrs[0].Name, c.Profile)
	}
	if sc.Cfg.OverrideLibrary {
		if hdrs[0].Enc != c.Library {
			return viol(sc, "lexer_stream_mismatch", "header library %q, wrote %q with OverrideLibrary", hdrs[0].Enc, c.Library)
		}
	} else if !strings.HasSuffix(hdrs[0].Enc, c.Library) {
		return viol(sc, "lexer_stream_mismatch", "header library %q does not end with the caller's %q", hdrs[0].Enc, c.Library)
	}
	// data section: schema|channel|message in write order
	dataSec := untilKind(lr.Recs, "data_end")
	if len(dataSec) == len(lr.Recs) {
		return viol(sc, "lexer_stream_mismatch", "no data_end token")
	}
	got := project(dataSec, "schema", "channel", "message")
	if d := model.DiffSeq(stripBindings(c.Data), got); d != "" {
		return viol(sc, "lexer_stream_mismatch", "schema/channel/message projection: %s", d)
	}
	// attachments
	var wantAtt []*model.Rec
	for _, a := range c.Attachments {
		cp := *a
		cp.CRC = attachmentCRC(a)
		cp.HasCRC = true
		wantAtt = append(wantAtt, &cp)
	}
	var gotAtt []*model.Rec
	for _, r := range lr.Recs {
		if strings.HasPrefix(r.Kind, "attachment") && r.Kind != "attachment_index" {
			gotAtt = append(gotAtt, r)
		}
	}
	if d := model.DiffSeq(wantAtt, gotAtt); d != "" {
		return viol(sc, "attachment_mismatch", "lexer attachments: %s", d)
	}
	// metadata
	if d := model.DiffSeq(c.Metadata, project(lr.Recs, "metadata")); d != "" {
		return viol(sc, "metadata_mismatch", "lexer metadata: %s", d)
	}

	// ---- non-indexed iterator ------------------------------------------------
	if sc.Cfg.SkipMagic || (sc.Cfg.Custom != "" && sc.Cfg.Chunked) {
		return nil
	}
	var rsrc io.Reader
	var stt *simdisk.SourceStats
	if sc.Mode == "seekable" {
		s := simdisk.NewSeekSource(w.image, *sc.Delivery, nil)
		rsrc, stt = s, &s.St
	} else {
		s := simdisk.NewSource(w.image, *sc.Delivery, nil)
		rsrc, stt = s, &s.St
	}
	ir := drive.ReadMessages(rsrc, *sc.Read)
	st.Evaluations++
	st.Add("event.source_reads", int64(stt.Reads))
	st.Add("event.source_seeks", int64(stt.Seeks))
	st.Event(stt.EventHash, uint64(len(ir.Msgs)))
	if ir.Panic != nil {
		return viol(sc, "panic", "iterator: %s", ir.Panic)
	}
	if ir.Terminal() != "eof" {
		return viol(sc, "unexpected_error", "iterator ended with %s: %v", ir.Terminal(), ir.FirstErr())
	}
	if ir.Mutated != "" {
		return viol(sc, "retained_value_mutated", "iterator: %s", ir.Mutated)
	}
	n := len(c.Messages)
	if len(ir.Msgs) < n {
		n = len(ir.Msgs)
	}
	for i := 0; i < n; i++ {
		wm, gm := c.Messages[i], ir.Msgs[i]
		wplain, gplain := *wm, *gm
		wplain.BoundChannel, wplain.BoundSchema, gplain.BoundChannel, gplain.BoundSchema = nil, nil, nil, nil
		if d := model.Diff(&wplain, &gplain); d != "" {
			return viol(sc, "iter_message_mismatch", "message %d: %s", i, d)
		}
		if d := model.Diff(wm, gm); d != "" {
			return viol(sc, "binding_mismatch", "message %d: %s", i, d)
		}
	}
	if len(ir.Msgs) != len(c.Messages) {
		return viol(sc, "iter_message_mismatch", "iterator returned %d messages, %d were written", len(ir.Msgs), len(c.Messages))
	}
	if d := model.DiffSeq(c.Metadata, ir.Metadata); d != "" {
		return viol(sc, "metadata_mismatch", "metadata callback on sequential read: %s", d)
	}
	return nil
}
