package props

import (
	"bytes"
	"crypto/sha256"
	"encoding/json"
	"fmt"
	"os"
	"runtime"
	"strconv"
	"sync"

	"github.com/foxglove/mcap/go/mcap"
	"pgregory.net/rapid"
	"verif/sim/internal/drive"
	"verif/sim/internal/gen"
	"verif/sim/internal/model"
	"verif/sim/internal/runner"
	"verif/sim/internal/scen"
	"verif/sim/internal/simdisk"
)

type c13 struct{ base }

func init() {
	runner.Register(&c13{base{
		id: "C13", level: "exploration",
		rule: "seeded search over workloads (metadata / channel maps of up to 40 keys, many channels) x configurations. (i) map order: the workload is run R times (8 quick, 32 thorough) in one process, each time building every map in a different insertion order; all outputs must be byte-identical (Go's map iteration order is not seedable, so this clause is decided by repetition). (ii) CPU count: the run is repeated under GOMAXPROCS 1, 2, 4, 16; outputs must equal the GOMAXPROCS=1 output. (iii) instance interference under an owned schedule: 2..8 tasks (writers over their own workload/config, lexers and iterators over prepared images) run as goroutines that park before every API call; the simulator releases exactly one at a time following a schedule drawn from the seed; every task's result must equal its solo run. (iii') history: a writer is run, then other instances (other codecs / levels) run to completion, then the same writer again - identical output. (iv) free-running: the tasks run as unsynchronised goroutines on 16 OS threads, several rounds, results compared with solo runs; the same clause runs again in a -race build, where a data-race report ends the batch process (exit 66) and is reported as race_report. distinct by (clause, config class, op-shape class, task mix, schedule prefix hash)",
		assumptions: []string{
			"clause (i) is decided by repetition: for maps of <= 8 keys Go randomises only the start slot, so an order dependence survives R runs with probability about 8^-(R-1) per map; maps of 9..40 keys are always included",
			"clause (iii) interleaves at API-call granularity; it exposes state shared between instances, not data races inside one call (the -race free-running clause is separate, thorough tier)",
		},
		batches: map[string]int{"quick": 48, "thorough": 96},
		checks:  map[string]int{"quick": 40, "thorough": 100},
	}})
}

type c13Task struct {
	Kind string         `json:"kind"` // "writer", "lexer", "scan", "indexed"
	Cfg  scen.Cfg       `json:"cfg"`
	WL   scen.Workload  `json:"workload"`
	Lex  drive.LexSpec  `json:"lex,omitempty"`
	Read drive.ReadSpec `json:"read,omitempty"`
}

type c13Extra struct {
	Clause   string    `json:"clause"` // "map_order", "gomaxprocs", "interference"
	Reps     int       `json:"reps,omitempty"`
	Tasks    []c13Task `json:"tasks,omitempty"`
	Schedule []int     `json:"schedule,omitempty"`
}

func (p *c13) Draw(t *rapid.T, tier string) *runner.Scenario {
	lim := gen.Limits{MaxOps: 30, MaxPayload: 600, MaxTotal: 8000}
	clauses := []string{"map_order", "map_order", "gomaxprocs", "interference", "interference", "free_running", "history", "history"}
	if only := os.Getenv("VERIF_C13_CLAUSE"); only != "" {
		clauses = []string{only}
	}
	ex := c13Extra{Clause: pick(t, "clause", clauses...)}
	switch ex.Clause {
	case "map_order", "gomaxprocs":
		wl := gen.Workload(t, lim)
		cfg := gen.Cfg(t, lim)
		if ex.Clause == "map_order" && rapid.IntRange(0, 2).Draw(t, "many_channels") == 0 {
			// many channels, chunks that each touch only a few of them: per-chunk maps are
			// sparse relative to the channel table
			n := pick(t, "n_channels", 24, 32, 64, 100)
			var extra []scen.Op
			for c := 0; c < n; c++ {
				extra = append(extra, scen.Op{Kind: scen.OpChannel, ID: uint16(1000 + c), Topic: scen.Str(fmt.Sprintf("/many/%d", c)), Encoding: "x"})
			}
			groups := rapid.IntRange(2, 8).Draw(t, "groups")
			seq := uint32(900000)
			for g := 0; g < groups; g++ {
				k := rapid.IntRange(2, 4).Draw(t, "per_group")
				for m := 0; m < 6; m++ {
					seq++
					ch := uint16(1000 + (g*7+m%k*3)%n)
					extra = append(extra, scen.Op{Kind: scen.OpMessage, ChannelID: ch, Sequence: seq, LogTime: uint64(seq), Data: scen.Blob{Len: 60, Tag: uint64(seq)}})
				}
			}
			wl.Ops = append(wl.Ops, extra...)
			cfg.Chunked, cfg.ChunkSize, cfg.SkipMessageIndexing, cfg.SkipChunkIndex = true, 400, false, false
		}
		ex.Reps = 8
		if tier == "thorough" {
			ex.Reps = 32
		}
		b, _ := json.Marshal(ex)
		return &runner.Scenario{Cfg: &cfg, WL: &wl, Extra: b}
	default:
		n := rapid.IntRange(2, 8).Draw(t, "n_tasks")
		small := gen.Limits{MaxOps: 14, MaxPayload: 300, MaxTotal: 3000, NoCustom: false}
		if ex.Clause == "free_running" {
			// more work per task so that the goroutines really overlap; many map keys
			n = rapid.IntRange(4, 12).Draw(t, "n_tasks_free")
			small = gen.Limits{MaxOps: 40, MaxPayload: 400, MaxTotal: 12000, CheapCodecs: true}
		}
		for i := 0; i < n; i++ {
			tk := c13Task{Kind: pick(t, "task_kind", "writer", "writer", "lexer", "scan", "indexed")}
			if ex.Clause == "history" && i == 0 {
				tk.Kind = "writer" // the instance whose output must not depend on what ran before it
			}
			l := small
			if tk.Kind == "indexed" {
				l.ForceChunked, l.ForceIndexed, l.NoCustom = true, true, true
			}
			if tk.Kind == "scan" {
				l.NoCustom = true
			}
			tk.WL = gen.Workload(t, l)
			tk.Cfg = gen.Cfg(t, l)
			if tk.Kind != "lexer" && tk.Kind != "writer" {
				tk.Cfg.SkipMagic = false
			}
			if rapid.IntRange(0, 2).Draw(t, "same_codec") == 0 && i > 0 {
				// several instances with the same codec make shared codec state visible
				tk.Cfg.Compression, tk.Cfg.Level, tk.Cfg.Custom, tk.Cfg.Chunked = ex.Tasks[0].Cfg.Compression, ex.Tasks[0].Cfg.Level, ex.Tasks[0].Cfg.Custom, ex.Tasks[0].Cfg.Chunked
				if tk.Kind == "indexed" || tk.Kind == "scan" {
					tk.Cfg.Custom = ""
				}
				if tk.Kind == "indexed" {
					tk.Cfg.Chunked = true
				}
			}
			tk.Lex = drive.LexSpec{Validate: rapid.Bool().Draw(t, "validate"), AttachCB: true, ComputeCRC: true, Custom: true, SkipMagic: tk.Cfg.SkipMagic}
			tk.Read = drive.ReadSpec{UseIndex: tk.Kind == "indexed", Order: 0}
			if tk.Kind == "indexed" {
				tk.Read.Order = rapid.IntRange(0, 2).Draw(t, "order")
			}
			ex.Tasks = append(ex.Tasks, tk)
		}
		ex.Schedule = rapid.SliceOfN(rapid.IntRange(0, n-1), 20, 400).Draw(t, "schedule")
		b, _ := json.Marshal(ex)
		return &runner.Scenario{Extra: b}
	}
}

// permuteMaps returns the workload with every map's insertion order permuted.
func permuteMaps(wl scen.Workload, rep int) scen.Workload {
	out := scen.Workload{Profile: wl.Profile, Library: wl.Library, Ops: make([]scen.Op, len(wl.Ops))}
	copy(out.Ops, wl.Ops)
	for i := range out.Ops {
		m := out.Ops[i].Meta
		if len(m) < 2 {
			continue
		}
		cp := make([]scen.KV, len(m))
		copy(cp, m)
		// Fisher-Yates driven by (rep, op index)
		for k := len(cp) - 1; k > 0; k-- {
			j := int(scen.Mix(uint64(rep), uint64(i), uint64(k)) % uint64(k+1))
			cp[k], cp[j] = cp[j], cp[k]
		}
		out.Ops[i].Meta = cp
	}
	return out
}

// stepper is one task of the interference clause.
type stepper interface {
	step() bool // runs one API call; false when finished
	result() []byte
}

type writerStepper struct {
	res   *drive.WriteResult
	steps []func()
	i     int
	sink  *simdisk.Sink
}

func newWriterStepper(tk c13Task) *writerStepper {
	sink := simdisk.NewSink(nil)
	res, steps := drive.WriterSteps(tk.Cfg, tk.WL, sink, drive.WriteOpts{})
	return &writerStepper{res: res, steps: steps, sink: sink}
}
func (w *writerStepper) step() bool {
	if w.i >= len(w.steps) {
		return false
	}
	w.steps[w.i]()
	w.i++
	return w.i < len(w.steps)
}
func (w *writerStepper) result() []byte {
	h := sha256.New()
	h.Write(w.sink.Data)
	fmt.Fprintf(h, "|%s", w.res.FirstProblem())
	return h.Sum(nil)
}

type lexStepper struct {
	lexer *mcap.Lexer
	src   *simdisk.Source
	spec  drive.LexSpec
	h     []byte
	buf   bytes.Buffer
	done  bool
	open  bool
	img   []byte
}

func newLexStepper(img []byte, spec drive.LexSpec) *lexStepper {
	return &lexStepper{img: img, spec: spec}
}
func (l *lexStepper) step() bool {
	if l.done {
		return false
	}
	if !l.open {
		l.open = true
		l.src = simdisk.NewSource(l.img, scen.Delivery{Kind: "hash_sizes", Seed: 5}, nil)
		var err error
		pi := drive.Guard(func() {
			l.lexer, err = mcap.NewLexer(l.src, l.spec.Options(func(ar *mcap.AttachmentReader) error {
				fmt.Fprintf(&l.buf, "att %d %d %q %q %d|", ar.LogTime, ar.CreateTime, ar.Name, ar.MediaType, ar.DataSize)
				b := make([]byte, 512)
				for {
					n, e := ar.Data().Read(b)
					l.buf.Write(b[:n])
					if e != nil {
						break
					}
				}
				return nil
			}))
		})
		if pi != nil || err != nil {
			fmt.Fprintf(&l.buf, "open: %v %v", pi, err)
			l.done = true
			return false
		}
		return true
	}
	var tt mcap.TokenType
	var rec []byte
	var err error
	pi := drive.Guard(func() { tt, rec, err = l.lexer.Next(nil) })
	if pi != nil || err != nil {
		fmt.Fprintf(&l.buf, "end: %v %v", pi, err)
		l.done = true
		l.lexer.Close()
		return false
	}
	fmt.Fprintf(&l.buf, "%d:", tt)
	l.buf.Write(rec)
	return true
}
func (l *lexStepper) result() []byte { s := sha256.Sum256(l.buf.Bytes()); return s[:] }

type iterStepper struct {
	img  []byte
	spec drive.ReadSpec
	rd   *mcap.Reader
	it   mcap.MessageIterator
	buf  bytes.Buffer
	done bool
	open bool
}

func (s *iterStepper) step() bool {
	if s.done {
		return false
	}
	if !s.open {
		s.open = true
		var err error
		pi := drive.Guard(func() {
			src := simdisk.NewSeekSource(s.img, scen.Delivery{Kind: "full"}, nil)
			s.rd, err = mcap.NewReader(src)
			if err != nil {
				return
			}
			opts := []mcap.ReadOpt{mcap.UsingIndex(s.spec.UseIndex)}
			if s.spec.Order != 0 {
				opts = append(opts, mcap.InOrder(mcap.ReadOrder(s.spec.Order)))
			}
			s.it, err = s.rd.Messages(opts...)
		})
		if pi != nil || err != nil {
			fmt.Fprintf(&s.buf, "open: %v %v", pi, err)
			s.done = true
			return false
		}
		return true
	}
	var sch *mcap.Schema
	var ch *mcap.Channel
	var m *mcap.Message
	var err error
	pi := drive.Guard(func() { sch, ch, m, err = s.it.NextInto(nil) })
	if pi != nil || err != nil {
		fmt.Fprintf(&s.buf, "end: %v %v", pi, err)
		s.done = true
		s.rd.Close()
		return false
	}
	r := drive.MessageRec(m)
	fmt.Fprintf(&s.buf, "%+v|", *r)
	if c := drive.ChannelRec(ch); c != nil {
		fmt.Fprintf(&s.buf, "%+v|", *c)
	}
	if sc := drive.SchemaRec(sch); sc != nil {
		fmt.Fprintf(&s.buf, "%+v", *sc)
	}
	s.buf.WriteByte(';')
	return true
}
func (s *iterStepper) result() []byte { x := sha256.Sum256(s.buf.Bytes()); return x[:] }

func makeStepper(tk c13Task, img []byte) stepper {
	switch tk.Kind {
	case "writer":
		return newWriterStepper(tk)
	case "lexer":
		return newLexStepper(img, tk.Lex)
	default:
		return &iterStepper{img: img, spec: tk.Read}
	}
}

// runScheduled runs the tasks as goroutines that park before every API call;
// exactly one is released at a time, in schedule order (wrapping, skipping
// finished tasks).
func runScheduled(tasks []stepper, schedule []int) ([][]byte, int, uint64) {
	n := len(tasks)
	type ctl struct {
		goCh   chan struct{}
		doneCh chan bool
	}
	ctls := make([]ctl, n)
	for i := range tasks {
		ctls[i] = ctl{make(chan struct{}), make(chan bool)}
		go func(i int) {
			for range ctls[i].goCh {
				ctls[i].doneCh <- tasks[i].step()
			}
		}(i)
	}
	alive := make([]bool, n)
	live := n
	for i := range alive {
		alive[i] = true
	}
	steps := 0
	var trace uint64
	for k := 0; live > 0; k++ {
		pick := 0
		if len(schedule) > 0 {
			pick = schedule[k%len(schedule)] % n
		}
		for !alive[pick] {
			pick = (pick + 1) % n
		}
		ctls[pick].goCh <- struct{}{}
		more := <-ctls[pick].doneCh
		steps++
		if steps <= 64 {
			trace = scen.Mix(trace, uint64(pick))
		}
		if !more {
			alive[pick] = false
			live--
			close(ctls[pick].goCh)
		}
		if steps > 2000000 {
			break
		}
	}
	out := make([][]byte, n)
	for i, t := range tasks {
		out[i] = t.result()
	}
	return out, steps, trace
}

func (p *c13) Check(sc *runner.Scenario, st *runner.Stats, pin string) *runner.Violation {
	var ex c13Extra
	if err := json.Unmarshal(sc.Extra, &ex); err != nil {
		return viol(sc, "harness", "bad extra: %v", err)
	}
	// start every scenario from the same process state as a fresh replay process:
	// two collections empty any sync.Pool left filled by earlier scenarios
	runtime.GC()
	runtime.GC()
	if ex.Clause != "map_order" && pinned(pin, "map_order") {
		// every other clause compares a writer with itself under some disturbance; first make
		// sure its output is stable when it runs alone (attributing plain run-to-run variation
		// to a schedule or to history would give a replay that shows again only by chance)
		var writers []c13Task
		if ex.Clause == "gomaxprocs" {
			writers = []c13Task{{Kind: "writer", Cfg: *sc.Cfg, WL: *sc.WL}}
		}
		for _, tk := range ex.Tasks {
			if tk.Kind == "writer" {
				writers = append(writers, tk)
			}
		}
		for i, tk := range writers {
			first, res := drive.Image(tk.Cfg, tk.WL)
			st.Evaluations++
			if res.FirstProblem() != "" {
				break // reported by the clause itself
			}
			for r := 1; r <= 5; r++ {
				img, _ := drive.Image(tk.Cfg, permuteMaps(tk.WL, r))
				st.Evaluations++
				if !bytes.Equal(first, img) {
					return viol(sc, "map_order", "writer task %d (%s), run alone several times with its maps built in different insertion orders, produced different output", i, gen.CfgClass(tk.Cfg))
				}
			}
		}
		st.Inc("probe.solo_stability_prechecks")
	}
	switch ex.Clause {
	case "history":
		// the same writer run twice in one process, with other instances (other codecs,
		// levels, sizes) run to completion in between: byte-identical output
		run := func(tk c13Task, img []byte) []byte {
			s := makeStepper(tk, img)
			for s.step() {
			}
			st.Evaluations++
			return s.result()
		}
		// the two runs of the writer share one options value, as a caller reusing its
		// configuration for several files would
		shared := drive.WriterOptions(ex.Tasks[0].Cfg)
		runShared := func() []byte {
			sink := simdisk.NewSink(nil)
			res := drive.RunWriter(ex.Tasks[0].Cfg, ex.Tasks[0].WL, sink, drive.WriteOpts{Options: shared})
			st.Evaluations++
			h := sha256.New()
			h.Write(sink.Data)
			fmt.Fprintf(h, "|%s", res.FirstProblem())
			return h.Sum(nil)
		}
		// (a custom compressor whose streams depend on how often the instance was used is
		// stateful by design and is not shared; the stateless ones are)
		if c := ex.Tasks[0].Cfg.Custom; c == "" || c == "xor" || c == "xorlong" || c == "flate" || c == "byolz4" {
			a, b := runShared(), runShared()
			if !bytes.Equal(a, b) && pinned(pin, "history") {
				return viol(sc, "history", "two writers (%s) created one after the other from the same options value produced different output", gen.CfgClass(ex.Tasks[0].Cfg))
			}
			st.Inc("fault.schedule.shared_options_runs")
		}
		first := run(ex.Tasks[0], nil)
		for i, tk := range ex.Tasks[1:] {
			var img []byte
			if tk.Kind != "writer" {
				var res *drive.WriteResult
				img, res = drive.Image(tk.Cfg, tk.WL)
				if prob := res.FirstProblem(); prob != "" {
					return viol(sc, "unexpected_error", "task %d: fault-free write failed: %s", i+1, prob)
				}
			}
			run(tk, img)
		}
		second := run(ex.Tasks[0], nil)
		st.Event(uint64(len(ex.Tasks)))
		if !bytes.Equal(first, second) && pinned(pin, "history") {
			return viol(sc, "history", "writer (%s) produced different output the second time, after %d other instances had run in the process", gen.CfgClass(ex.Tasks[0].Cfg), len(ex.Tasks)-1)
		}
		st.DistinctCase("history|" + gen.CfgClass(ex.Tasks[0].Cfg) + "|" + fmt.Sprint(len(ex.Tasks)))
		st.Inc("fault.schedule.history_runs")
		return nil
	case "map_order":
		var first []byte
		maxKeys := 0
		for _, o := range sc.WL.Ops {
			if len(o.Meta) > maxKeys {
				maxKeys = len(o.Meta)
			}
		}
		for r := 0; r < ex.Reps; r++ {
			st.Doing(nil, "map_order")
			wl := permuteMaps(*sc.WL, r)
			img, res := drive.Image(*sc.Cfg, wl)
			st.Evaluations++
			if prob := res.FirstProblem(); prob != "" {
				return viol(sc, "unexpected_error", "fault-free write failed: %s", prob)
			}
			if r == 0 {
				first = img
				st.Event(uint64(len(img)))
				continue
			}
			if !bytes.Equal(first, img) && pinned(pin, "map_order") {
				at := 0
				for at < len(first) && at < len(img) && first[at] == img[at] {
					at++
				}
				return viol(sc, "map_order", "repetition %d (maps built in another insertion order) produced different output: lengths %d vs %d, first difference at byte %d", r, len(first), len(img), at)
			}
		}
		if maxKeys >= 2 {
			st.DistinctCase(fmt.Sprintf("map_order|%s|%s|k%d", gen.CfgClass(*sc.Cfg), gen.Shape(*sc.WL), bucket(maxKeys)))
		}
		if maxKeys >= 9 {
			st.Inc("probe.map_over_8_keys")
		}
		st.Inc("fault.schedule.map_order_repetitions")
	case "gomaxprocs":
		old := runtime.GOMAXPROCS(0)
		defer runtime.GOMAXPROCS(old)
		var first []byte
		for _, n := range []int{1, 2, 4, 16} {
			runtime.GOMAXPROCS(n)
			img, res := drive.Image(*sc.Cfg, *sc.WL)
			st.Evaluations++
			if prob := res.FirstProblem(); prob != "" {
				return viol(sc, "unexpected_error", "fault-free write failed: %s", prob)
			}
			if n == 1 {
				first = img
				st.Event(uint64(len(img)))
				continue
			}
			if !bytes.Equal(first, img) && pinned(pin, "gomaxprocs") {
				return viol(sc, "gomaxprocs", "output under GOMAXPROCS=%d differs from GOMAXPROCS=1 (lengths %d vs %d)", n, len(img), len(first))
			}
		}
		runtime.GOMAXPROCS(old)
		if len(model.FromWorkload(*sc.WL).Messages) >= 1 {
			st.DistinctCase(fmt.Sprintf("gomaxprocs|%s|%s", gen.CfgClass(*sc.Cfg), gen.Shape(*sc.WL)))
		}
		st.Inc("fault.schedule.gomaxprocs_settings")
	case "free_running":
		return p.freeRunning(sc, &ex, st, pin)
	case "interference":
		// prepared images for reader tasks; solo results
		imgs := make([][]byte, len(ex.Tasks))
		solo := make([][]byte, len(ex.Tasks))
		for i, tk := range ex.Tasks {
			if tk.Kind != "writer" {
				img, res := drive.Image(tk.Cfg, tk.WL)
				if prob := res.FirstProblem(); prob != "" {
					return viol(sc, "unexpected_error", "task %d: fault-free write failed: %s", i, prob)
				}
				imgs[i] = img
			}
			s := makeStepper(tk, imgs[i])
			for s.step() {
			}
			solo[i] = s.result()
			st.Evaluations++
		}
		tasks := make([]stepper, len(ex.Tasks))
		for i, tk := range ex.Tasks {
			tasks[i] = makeStepper(tk, imgs[i])
		}
		got, steps, trace := runScheduled(tasks, ex.Schedule)
		st.Evaluations++
		st.Add("event.scheduled_steps", int64(steps))
		st.Event(trace, uint64(steps))
		kinds := ""
		for i, tk := range ex.Tasks {
			kinds += tk.Kind[:1]
			if !bytes.Equal(got[i], solo[i]) && pinned(pin, "interference") {
				return viol(sc, "interference", "task %d (%s, %s) produced a different result when interleaved with %d other instances than when run alone (%d scheduled steps)", i, tk.Kind, gen.CfgClass(tk.Cfg), len(ex.Tasks)-1, steps)
			}
		}
		st.DistinctCase(fmt.Sprintf("interference|%s|%016x", kinds, trace))
		st.Inc("fault.schedule.interleavings")
	}
	return nil
}

// freeRunning is the one clause whose interleaving the simulator does not own:
// the tasks run as unsynchronised goroutines on several OS threads (and, in
// the -race build of the thorough tier, under the race detector). Results are
// schedule-independent iff the property holds, so a difference is a true
// positive; it may need several attempts to reproduce, and replay tries up to
// 50 times.
func (p *c13) freeRunning(sc *runner.Scenario, ex *c13Extra, st *runner.Stats, pin string) *runner.Violation {
	old := runtime.GOMAXPROCS(0)
	runtime.GOMAXPROCS(16)
	defer runtime.GOMAXPROCS(old)
	imgs := make([][]byte, len(ex.Tasks))
	solo := make([][]byte, len(ex.Tasks))
	for i, tk := range ex.Tasks {
		if tk.Kind != "writer" {
			img, res := drive.Image(tk.Cfg, tk.WL)
			if prob := res.FirstProblem(); prob != "" {
				return viol(sc, "unexpected_error", "task %d: fault-free write failed: %s", i, prob)
			}
			imgs[i] = img
		}
		s := makeStepper(tk, imgs[i])
		for s.step() {
		}
		solo[i] = s.result()
		st.Evaluations++
	}
	attempts := 6
	if sc.Tier == "thorough" {
		attempts = 20
	}
	if n, err := strconv.Atoi(os.Getenv("VERIF_C13_ATTEMPTS")); err == nil && n > 0 {
		attempts = n
	}
	if pin != "" || os.Getenv("VERIF_REPLAY") != "" {
		attempts = 200 // replay / shrinking: the schedule is not owned, try harder
	}
	st.InFlight(sc)
	for a := 0; a < attempts; a++ {
		st.Doing(nil, "free_running")
		tasks := make([]stepper, len(ex.Tasks))
		for i, tk := range ex.Tasks {
			tasks[i] = makeStepper(tk, imgs[i])
		}
		var wg sync.WaitGroup
		start := make(chan struct{})
		for i := range tasks {
			wg.Add(1)
			go func(s stepper) {
				defer wg.Done()
				<-start
				for s.step() {
				}
			}(tasks[i])
		}
		close(start)
		wg.Wait()
		st.Evaluations++
		st.Inc("fault.schedule.free_running_rounds")
		for i, tk := range ex.Tasks {
			if !bytes.Equal(tasks[i].result(), solo[i]) && pinned(pin, "free_running") {
				return viol(sc, "free_running", "task %d (%s, %s) produced a different result when run concurrently with %d other instances (attempt %d) than when run alone", i, tk.Kind, gen.CfgClass(tk.Cfg), len(ex.Tasks)-1, a)
			}
		}
	}
	kinds := ""
	for _, tk := range ex.Tasks {
		kinds += tk.Kind[:1]
	}
	st.DistinctCase("free_running|" + kinds)
	return nil
}
