package props

import (
	"fmt"
	"strings"

	"pgregory.net/rapid"
	"verif/sim/internal/gen"
	"verif/sim/internal/refmcap"
	"verif/sim/internal/runner"
	"verif/sim/internal/scen"
)

type c09 struct{ base }

func init() {
	runner.Register(&c09{base{
		id: "C09", level: "fault_enumeration",
		rule: "seeded search over written files (none/zstd/lz4/custom/unchunked, CRCs on/off); per file the crash fault is enumerated exhaustively: truncation at EVERY byte 0..len-1, each read through the lexer without and with chunk CRC validation (attachment callback draining), through the lexer on a seekable source without callback (attachment bodies skipped with Seek) and through the non-indexed iterator, under a drawn benign delivery policy. the consumer calls twice more after an error, and what those calls return counts as returned. oracle: records returned are an element-wise prefix of the same reader's result on the uncut file (a cut attachment may surface with fewer data bytes), the read ends with EOF or an error, no panic, and every message of every chunk / top-level record that lies completely before the cut is returned. non-trivial file: >=2 record kinds and >=1 message; distinct by (config class, op-shape class, reader mode, FileMap region of the cut)",
		assumptions: []string{
			"the sink is append-only (checked by C05), so what survives a crash of the recorder is a byte prefix",
			"completeness bound uses refmcap's record boundaries",
		},
		batches: map[string]int{"quick": 48, "thorough": 96},
		checks:  map[string]int{"quick": 3, "thorough": 12},
	}})
}

func smallLimits(tier string) gen.Limits {
	if tier == "thorough" {
		return gen.Limits{MaxOps: 40, MaxPayload: 2500, MaxTotal: 12000, CheapCodecs: true}
	}
	return gen.Limits{MaxOps: 14, MaxPayload: 300, MaxTotal: 1200, CheapCodecs: true}
}

func (p *c09) Draw(t *rapid.T, tier string) *runner.Scenario {
	lim := smallLimits(tier)
	wl := gen.Workload(t, lim)
	cfg := gen.Cfg(t, lim)
	del := gen.Delivery(t)
	return &runner.Scenario{Cfg: &cfg, WL: &wl, Delivery: &del}
}

var c09Modes = []readerMode{"lexer", "lexer_crc", "scan", "lexer_seek"}

// completeBefore returns, for a cut at L, how many messages lie in chunks or
// top-level records that end at or before L.
func messagesCompleteBefore(f *refmcap.File, L int64) int {
	n := 0
	for _, r := range f.Records {
		if r.End() > L {
			break
		}
		switch r.Op {
		case refmcap.OpMessage:
			n++
		case refmcap.OpChunk:
			for _, in := range r.V.(*refmcap.Chunk).Inner {
				if in.Op == refmcap.OpMessage {
					n++
				}
			}
		}
		if r.Op == refmcap.OpDataEnd {
			break
		}
	}
	return n
}

func (p *c09) checkCut(sc *runner.Scenario, w *world, mode readerMode, full *seqResult, L int64, st *runner.Stats, pin string) *runner.Violation {
	cut := w.image[:L]
	st.Doing(&scen.Fault{Kind: "crash_truncate", Off: L}, string(mode))
	// the consumer calls twice more after an error: the file has not grown, and what those calls
	// hand out is held to the same standard (a prefix of what was written)
	pollAgain := 2
	res := runSeqAgain(mode, cut, *sc.Cfg, *sc.Delivery, nil, pollAgain)
	st.Evaluations++
	st.Inc("fault.crash_truncate")
	st.Add("event.source_reads", int64(res.srcStats.Reads))
	st.Event(uint64(L), res.srcStats.EventHash, uint64(len(res.recs)))
	mk := func(clause, format string, a ...any) *runner.Violation {
		if !pinned(pin, clause) {
			return nil
		}
		cp := *sc
		cp.Fault = &scen.Fault{Kind: "crash_truncate", Off: L}
		cp.Mode = string(mode)
		return viol(&cp, clause, "cut at %d of %d (%s), reader %s: %s", L, len(w.image), regionOf(w.file, L, sc.Cfg.SkipMagic), mode, fmt.Sprintf(format, a...))
	}
	if res.panic != nil {
		return mk("panic", "%s", res.panic)
	}
	if res.terminal == "none" || (res.err != nil && isBudget(res.err)) {
		return mk("no_termination", "read did not end: %v", res.err)
	}
	if ok, d := prefixWithPartial(full.recs, res.recs); !ok {
		clause := "not_prefix"
		if len(res.recs) <= len(full.recs) {
			clause = "altered"
		}
		return mk(clause, "%s", d)
	}
	for i, o := range res.again {
		if strings.HasPrefix(o, "garbage") {
			return mk("altered", "call %d after the read had ended with %v handed out a record that does not parse: %s", i+1, res.err, o)
		}
	}
	if len(res.again) > 0 {
		st.Inc("probe.polled_again_after_error")
	}
	want := messagesCompleteBefore(w.file, L)
	if got := countKind(res.recs, "message"); got < want {
		return mk("complete_chunk_lost", "%d messages lie in records completely before the cut, only %d were returned (then %s: %v)", want, got, res.terminal, res.err)
	}
	return nil
}

func isBudget(err error) bool {
	return err != nil && len(err.Error()) > 8 && err.Error()[:8] == "harness:"
}

func (p *c09) Check(sc *runner.Scenario, st *runner.Stats, pin string) *runner.Violation {
	w, problem := build(*sc.Cfg, *sc.WL)
	st.Evaluations++
	st.Event(uint64(len(w.image)))
	if problem != "" {
		return viol(sc, "unexpected_error", "fault-free write failed: %s", problem)
	}
	if w.fileErr != nil {
		return viol(sc, "unexpected_error", "reference decoder cannot frame the file: %v", w.fileErr)
	}
	modes := c09Modes
	if sc.Cfg.SkipMagic || (sc.Cfg.Custom != "" && sc.Cfg.Chunked) {
		modes = []readerMode{"lexer", "lexer_crc", "lexer_seek"}
	}
	fulls := map[readerMode]*seqResult{}
	for _, m := range modes {
		full := runSeq(m, w.image, *sc.Cfg, *sc.Delivery, nil)
		st.Evaluations++
		if full.panic != nil {
			return viol(sc, "panic", "uncut file, reader %s: %s", m, full.panic)
		}
		if full.terminal != "eof" {
			return viol(sc, "unexpected_error", "uncut file, reader %s ended with %s: %v", m, full.terminal, full.err)
		}
		if d := anchorToModel(m, full, w); d != "" {
			return viol(sc, "altered", "uncut file, reader %s, against what was written: %s", m, d)
		}
		fulls[m] = full
	}
	if sc.Fault != nil {
		// replay of one concrete cut
		if sc.Fault.Off > int64(len(w.image)) {
			return nil
		}
		return p.checkCut(sc, w, readerMode(sc.Mode), fulls[readerMode(sc.Mode)], sc.Fault.Off, st, pin)
	}
	nontrivial := kindsOf(*sc.WL) >= 2 && len(w.content.Messages) >= 1
	journalEnds := map[int64]bool{}
	for _, ev := range w.wres.Sink.Journal {
		journalEnds[ev.Off] = true
	}
	for L := int64(0); L < int64(len(w.image)); L++ {
		region := regionOf(w.file, L, sc.Cfg.SkipMagic)
		if journalEnds[L] {
			st.Inc("probe.cut_at_write_call_boundary")
		} else {
			st.Inc("probe.cut_torn_inside_write_call")
		}
		for _, m := range modes {
			if v := p.checkCut(sc, w, m, fulls[m], L, st, pin); v != nil {
				return v
			}
			st.Inc("region." + region + "|" + cfgComp(*sc.Cfg))
			if nontrivial {
				st.DistinctCase(gen.CfgClass(*sc.Cfg) + "|" + gen.Shape(*sc.WL) + "|" + string(m) + "|" + region)
			}
		}
	}
	return nil
}

func cfgComp(c scen.Cfg) string {
	if !c.Chunked {
		return "unchunked"
	}
	if n := c.CompressionName(); n != "" {
		return n
	}
	return "none"
}
