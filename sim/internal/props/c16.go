package props

import (
	"bufio"
	"encoding/base64"
	"encoding/hex"
	"encoding/json"
	"fmt"
	"github.com/foxglove/mcap/go/mcap"
	"io"
	"os"
	"os/exec"
	"path/filepath"
	"strconv"
	"strings"

	"pgregory.net/rapid"
	"verif/sim/internal/drive"
	"verif/sim/internal/gen"
	"verif/sim/internal/model"
	"verif/sim/internal/runner"
	"verif/sim/internal/scen"
	"verif/sim/internal/simdisk"
)

type c16 struct{ base }

func init() {
	runner.Register(&c16{base{
		id: "C16", level: "exploration",
		rule: "two real implementations exchange files through the simulated disk. go->py: seeded workloads (valid UTF-8) x every Go writer configuration without compression; the image is handed to the repository's Python readers (StreamReader with validate_crcs, NonSeekingReader, SeekingReader) running in a subprocess with PYTHONHASHSEED fixed; full record stream, messages in file / log-time / reverse order with their channel and schema, attachments, metadata and statistics are compared with the model. py->go: seeded op lists x Python Writer options (chunk size, index types, repeat flags, statistics, summary offsets, CRC flags; compression NONE) produce an image that the Go lexer, scan, indexed readers (3 orders) and Info read; compared with the model derived from the op list. non-trivial: >=1 message and >=2 record kinds; distinct by (direction, config/option class, op-shape class)",
		assumptions: []string{
			"zstandard and lz4 are not installed for Python here: uncompressed files only (as the property states)",
			"Python seeking readers are compared only where the summary carries what they rely on (chunk indexes with repeated channels and schemas; attachment / metadata indexes)",
			"for Python-written files, schemas/channels that no message refers to may be absent from the data section (the Python writer does not flush a trailing chunk holding only schema/channel records): definitions are checked for correctness and for presence when a message needs them",
		},
		batches: map[string]int{"quick": 32, "thorough": 96},
		checks:  map[string]int{"quick": 60, "thorough": 200},
	}})
	runner.Components["C16"] = map[string][]string{
		"real":      {"go/mcap writer, lexer, readers", "python/mcap StreamReader, NonSeekingReader, SeekingReader, Writer (python3 subprocess, repository sources on sys.path)"},
		"simulated": {"disk: images pass between the two implementations in memory; Go side reads under a drawn delivery policy"},
		"stub":      {},
	}
}

// ---- python subprocess ---------------------------------------------------------------

type pyProc struct {
	cmd *exec.Cmd
	in  io.WriteCloser
	out *bufio.Reader
}

var thePy *pyProc

func pyServer() (*pyProc, error) {
	if thePy != nil {
		return thePy, nil
	}
	dir := os.Getenv("VERIF_DIR")
	if dir == "" {
		dir = "/verif"
	}
	cmd := exec.Command("python3", filepath.Join(dir, "py", "pyserve.py"))
	seed := os.Getenv("VERIF_PYTHONHASHSEED")
	if seed == "" {
		// a function of the batch index, so that both hash seeds are exercised and a
		// batch still replays exactly
		seed = "1"
		if b, err := strconv.Atoi(os.Getenv("VERIF_BATCH_INDEX")); err == nil && b%2 == 1 {
			seed = "2"
		}
	}
	cmd.Env = append(os.Environ(), "PYTHONHASHSEED="+seed, "PYTHONDONTWRITEBYTECODE=1")
	in, err := cmd.StdinPipe()
	if err != nil {
		return nil, err
	}
	out, err := cmd.StdoutPipe()
	if err != nil {
		return nil, err
	}
	cmd.Stderr = os.Stderr
	if err := cmd.Start(); err != nil {
		return nil, err
	}
	thePy = &pyProc{cmd: cmd, in: in, out: bufio.NewReaderSize(out, 1<<20)}
	return thePy, nil
}

func (p *pyProc) call(req any) (map[string]any, error) {
	b, err := json.Marshal(req)
	if err != nil {
		return nil, err
	}
	if _, err := p.in.Write(append(b, '\n')); err != nil {
		return nil, err
	}
	line, err := p.out.ReadBytes('\n')
	if err != nil {
		return nil, fmt.Errorf("python server died: %v", err)
	}
	var resp map[string]any
	dec := json.NewDecoder(strings.NewReader(string(line)))
	dec.UseNumber()
	if err := dec.Decode(&resp); err != nil {
		return nil, err
	}
	if f, ok := resp["fatal"]; ok {
		return nil, fmt.Errorf("python server: %v %v", f, resp["trace"])
	}
	return resp, nil
}

func num(v any) uint64 {
	switch x := v.(type) {
	case json.Number:
		var u uint64
		fmt.Sscan(x.String(), &u)
		return u
	case float64:
		return uint64(x)
	}
	return 0
}

func str(v any) string { s, _ := v.(string); return s }

func pyMeta(v any) []model.KV {
	var out []model.KV
	l, _ := v.([]any)
	for _, e := range l {
		p, _ := e.([]any)
		if len(p) == 2 {
			out = append(out, model.KV{K: str(p[0]), V: str(p[1])})
		}
	}
	if out == nil {
		out = []model.KV{}
	}
	return out
}

func pyRec(v any) *model.Rec {
	m, ok := v.(map[string]any)
	if !ok || m == nil {
		return nil
	}
	r := &model.Rec{Kind: str(m["kind"])}
	data, _ := hex.DecodeString(str(m["data"]))
	switch r.Kind {
	case "schema":
		r.ID, r.Name, r.Enc, r.Data = uint16(num(m["id"])), str(m["name"]), str(m["enc"]), data
	case "channel":
		r.ID, r.SchemaID, r.Topic, r.Enc, r.Meta = uint16(num(m["id"])), uint16(num(m["schema_id"])), str(m["topic"]), str(m["enc"]), pyMeta(m["meta"])
	case "message":
		r.ChannelID, r.Seq, r.LogTime, r.PubTime, r.Data = uint16(num(m["channel_id"])), uint32(num(m["seq"])), num(m["log_time"]), num(m["pub_time"]), data
		if c, ok := m["channel"]; ok {
			r.BoundChannel = pyRec(c)
			r.BoundSchema = pyRec(m["schema"])
		}
	case "attachment":
		r.LogTime, r.PubTime, r.Name, r.Enc, r.Data = num(m["log_time"]), num(m["pub_time"]), str(m["name"]), str(m["enc"]), data
	case "metadata":
		r.Name, r.Meta = str(m["name"]), pyMeta(m["meta"])
	}
	if r.Data == nil {
		r.Data = []byte{}
	}
	return r
}

func pyRecs(v any) []*model.Rec {
	l, _ := v.([]any)
	out := make([]*model.Rec, 0, len(l))
	for _, e := range l {
		out = append(out, pyRec(e))
	}
	return out
}

func pyStats(v any) (statsView, bool) {
	m, ok := v.(map[string]any)
	if !ok || m == nil {
		return statsView{}, false
	}
	s := statsView{MessageCount: num(m["message_count"]), SchemaCount: num(m["schema_count"]), ChannelCount: num(m["channel_count"]), AttachmentCount: num(m["attachment_count"]),
		MetadataCount: num(m["metadata_count"]), ChunkCount: num(m["chunk_count"]), Start: num(m["start"]), End: num(m["end"]), PerChannel: map[uint16]uint64{}}
	l, _ := m["per_channel"].([]any)
	for _, e := range l {
		p, _ := e.([]any)
		if len(p) == 2 {
			s.PerChannel[uint16(num(p[0]))] = num(p[1])
		}
	}
	return s, true
}

// ---- scenario ---------------------------------------------------------------------

type pyOpts struct {
	ChunkSize         int      `json:"chunk_size"`
	IndexTypes        []string `json:"index_types"`
	IndexAll          bool     `json:"index_all"`
	RepeatChannels    bool     `json:"repeat_channels"`
	RepeatSchemas     bool     `json:"repeat_schemas"`
	UseChunking       bool     `json:"use_chunking"`
	UseStatistics     bool     `json:"use_statistics"`
	UseSummaryOffsets bool     `json:"use_summary_offsets"`
	EnableCRCs        bool     `json:"enable_crcs"`
	EnableDataCRCs    bool     `json:"enable_data_crcs"`
	Profile           string   `json:"profile"`
	Library           string   `json:"library"`
}

type c16Extra struct {
	Dir  string  `json:"dir"` // "go2py" | "py2go"
	Opts *pyOpts `json:"opts,omitempty"`
}

func (p *c16) Draw(t *rapid.T, tier string) *runner.Scenario {
	lim := gen.Limits{MaxOps: 30, MaxPayload: 500, MaxTotal: 8000, UTF8Only: true, NoCompression: true, NoCustom: true}
	if tier == "thorough" {
		lim.MaxOps, lim.MaxPayload, lim.MaxTotal = 80, 5000, 60000
	}
	dir := pick(t, "dir", "go2py", "go2py", "py2go")
	if dir == "go2py" {
		wl := gen.Workload(t, lim)
		cfg := gen.Cfg(t, lim)
		cfg.SkipMagic = false
		ex, _ := json.Marshal(c16Extra{Dir: dir})
		return &runner.Scenario{WL: &wl, Cfg: &cfg, Extra: ex}
	}
	// the Python writer assigns ids 1..n itself and takes str arguments: draw a
	// workload, then renumber ids in registration order and drop re-writes
	wl := gen.Workload(t, lim)
	wl = pyRenumber(wl)
	o := &pyOpts{ChunkSize: pick(t, "py.chunk_size", 1, 50, 300, 4000, 1<<20), RepeatChannels: rapid.Bool().Draw(t, "py.rch"), RepeatSchemas: rapid.Bool().Draw(t, "py.rsh"),
		UseChunking: rapid.IntRange(0, 4).Draw(t, "py.chunking") != 0, UseStatistics: rapid.Bool().Draw(t, "py.stats"), UseSummaryOffsets: rapid.Bool().Draw(t, "py.offsets"),
		EnableCRCs: rapid.Bool().Draw(t, "py.crcs"), EnableDataCRCs: rapid.Bool().Draw(t, "py.data_crcs"), Profile: string(wl.Profile), Library: string(wl.Library)}
	switch pick(t, "py.index", "all", "all", "none", "some") {
	case "all":
		o.IndexAll = true
	case "some":
		for _, n := range []string{"ATTACHMENT", "CHUNK", "MESSAGE", "METADATA"} {
			if rapid.Bool().Draw(t, "py.idx."+n) {
				o.IndexTypes = append(o.IndexTypes, n)
			}
		}
	}
	ex, _ := json.Marshal(c16Extra{Dir: dir, Opts: o})
	return &runner.Scenario{WL: &wl, Extra: ex}
}

// pyRenumber keeps the first definition of each schema/channel and renumbers
// ids 1..n in registration order, as the Python writer does.
func pyRenumber(wl scen.Workload) scen.Workload {
	out := scen.Workload{Profile: wl.Profile, Library: wl.Library}
	sm := map[uint16]uint16{}
	cm := map[uint16]uint16{}
	for _, o := range wl.Ops {
		switch o.Kind {
		case scen.OpSchema:
			if _, ok := sm[o.ID]; ok {
				continue
			}
			sm[o.ID] = uint16(len(sm) + 1)
			o.ID = sm[o.ID]
		case scen.OpChannel:
			if _, ok := cm[o.ID]; ok {
				continue
			}
			cm[o.ID] = uint16(len(cm) + 1)
			o.ID = cm[o.ID]
			if o.SchemaID != 0 {
				o.SchemaID = sm[o.SchemaID]
			}
		case scen.OpMessage:
			o.ChannelID = cm[o.ChannelID]
		}
		out.Ops = append(out.Ops, o)
	}
	return out
}

func pyOps(wl scen.Workload) []map[string]any {
	var ops []map[string]any
	for _, o := range wl.Ops {
		m := map[string]any{"kind": o.Kind}
		meta := [][]string{}
		for _, kv := range o.Meta {
			meta = append(meta, []string{string(kv.K), string(kv.V)})
		}
		switch o.Kind {
		case scen.OpSchema:
			m["name"], m["enc"], m["data"] = string(o.Name), string(o.Encoding), hex.EncodeToString(o.Data.Bytes())
		case scen.OpChannel:
			m["topic"], m["enc"], m["schema_id"], m["meta"] = string(o.Topic), string(o.Encoding), o.SchemaID, meta
		case scen.OpMessage:
			m["channel_id"], m["log_time"], m["pub_time"], m["seq"], m["data"] = o.ChannelID, o.LogTime, o.PublishTime, o.Sequence, hex.EncodeToString(o.Data.Bytes())
		case scen.OpAttachment:
			m["log_time"], m["pub_time"], m["name"], m["enc"], m["data"] = o.LogTime, o.PublishTime, string(o.Name), string(o.Encoding), hex.EncodeToString(o.Data.Bytes())
		case scen.OpMetadata:
			m["name"], m["meta"] = string(o.Name), meta
		}
		ops = append(ops, m)
	}
	return ops
}

func noSize(recs []*model.Rec) []*model.Rec {
	out := make([]*model.Rec, len(recs))
	for i, r := range recs {
		c := *r
		c.HasSize, c.HasCRC = false, false
		out[i] = &c
	}
	return out
}

func (p *c16) Check(sc *runner.Scenario, st *runner.Stats, pin string) *runner.Violation {
	var ex c16Extra
	if err := json.Unmarshal(sc.Extra, &ex); err != nil {
		return viol(sc, "harness", "bad extra: %v", err)
	}
	py, err := pyServer()
	if err != nil {
		return viol(sc, "harness", "cannot start python: %v", err)
	}
	c := model.FromWorkload(*sc.WL)
	mk := func(clause, format string, a ...any) *runner.Violation {
		if !pinned(pin, clause) {
			return nil
		}
		return viol(sc, clause, format, a...)
	}
	if ex.Dir == "go2py" {
		w, problem := build(*sc.Cfg, *sc.WL)
		st.Evaluations++
		st.Event(uint64(len(w.image)))
		if problem != "" {
			return viol(sc, "unexpected_error", "fault-free write failed: %s", problem)
		}
		resp, err := py.call(map[string]any{"cmd": "read", "image": base64.StdEncoding.EncodeToString(w.image)})
		st.Evaluations++
		if err != nil {
			return viol(sc, "harness", "%v", err)
		}
		cfg := sc.Cfg
		if kindsOf(*sc.WL) >= 2 && len(c.Messages) >= 1 {
			st.DistinctCase("go2py|" + gen.CfgClass(*cfg) + "|" + gen.Shape(*sc.WL))
		}
		indexed := cfg.Chunked && !cfg.SkipChunkIndex && !cfg.SkipRepeatedChannelInfos && !cfg.SkipRepeatedSchemas && len(c.Channels) > 0
		for _, key := range []string{"stream", "nonseeking_file_order", "nonseeking_log_order", "nonseeking_attachments", "nonseeking_metadata"} {
			if e, ok := resp[key+"_error"]; ok {
				if v := mk("go_to_py:"+key+":py_error", "Python %s failed on a Go-written file: %v", key, e); v != nil {
					return v
				}
				return nil
			}
		}
		stream, _ := resp["stream"].(map[string]any)
		hdr, _ := stream["header"].(map[string]any)
		if hdr == nil || str(hdr["profile"]) != c.Profile {
			if v := mk("go_to_py:stream:header", "Python StreamReader header %v, wrote profile %q", hdr, c.Profile); v != nil {
				return v
			}
		}
		recs := pyRecs(stream["records"])
		dataSec := untilKind(recs, "data_end")
		if d := model.DiffSeq(stripBindings(c.Data), project(dataSec, "schema", "channel", "message")); d != "" {
			if v := mk("go_to_py:stream:records", "Python StreamReader schema/channel/message stream: %s", d); v != nil {
				return v
			}
		}
		if d := model.DiffSeq(noSize(c.Attachments), project(recs, "attachment")); d != "" {
			if v := mk("go_to_py:stream:attachments", "Python StreamReader attachments: %s", d); v != nil {
				return v
			}
		}
		if d := model.DiffSeq(c.Metadata, project(recs, "metadata")); d != "" {
			if v := mk("go_to_py:stream:metadata", "Python StreamReader metadata: %s", d); v != nil {
				return v
			}
		}
		known := map[uint16]bool{}
		for _, ch := range c.Channels {
			known[ch.ID] = true
		}
		chunks := w.chunkCount()
		if !cfg.SkipStatistics {
			for _, r := range recs {
				if r.Kind == "statistics" {
					// the raw map was dropped by pyRec; fetch it again
				}
			}
			l, _ := stream["records"].([]any)
			for _, e := range l {
				m, _ := e.(map[string]any)
				if str(m["kind"]) == "statistics" {
					sv, _ := pyStats(m["stats"])
					if f, d := compareStats(sv, c.Stats(), chunks, known); f != "" {
						if v := mk("go_to_py:stream:statistics", "Python reads statistics %s = %s", f, d); v != nil {
							return v
						}
					}
					st.Inc("probe.py_statistics_compared")
				}
			}
		}
		if d := model.DiffSeq(c.Messages, pyRecs(resp["nonseeking_file_order"])); d != "" {
			if v := mk("go_to_py:nonseeking:messages", "Python NonSeekingReader file order: %s", d); v != nil {
				return v
			}
		}
		lo := pyRecs(resp["nonseeking_log_order"])
		if d := sameMultiset(c.Messages, lo); d != "" || monotone(lo, 1) != "" {
			if v := mk("go_to_py:nonseeking:log_order", "Python NonSeekingReader log-time order: %s %s", d, monotone(lo, 1)); v != nil {
				return v
			}
		}
		if d := model.DiffSeq(noSize(c.Attachments), pyRecs(resp["nonseeking_attachments"])); d != "" {
			if v := mk("go_to_py:nonseeking:attachments", "%s", d); v != nil {
				return v
			}
		}
		if d := model.DiffSeq(c.Metadata, pyRecs(resp["nonseeking_metadata"])); d != "" {
			if v := mk("go_to_py:nonseeking:metadata", "%s", d); v != nil {
				return v
			}
		}
		// seeking readers
		if indexed {
			st.Inc("probe.py_seeking_compared")
			for _, key := range []string{"seeking", "seeking_file_order", "seeking_log_order", "seeking_reverse"} {
				if e, ok := resp[key+"_error"]; ok {
					if v := mk("go_to_py:"+key+":py_error", "Python %s failed on an indexed Go-written file: %v", key, e); v != nil {
						return v
					}
					return nil
				}
			}
			if d := model.DiffSeq(c.Messages, pyRecs(resp["seeking_file_order"])); d != "" {
				if v := mk("go_to_py:seeking:file_order", "Python SeekingReader file order: %s", d); v != nil {
					return v
				}
			}
			for key, order := range map[string]int{"seeking_log_order": 1, "seeking_reverse": 2} {
				got := pyRecs(resp[key])
				d := sameMultiset(c.Messages, got)
				if d == "" {
					d = monotone(got, order)
				}
				if d != "" {
					if v := mk("go_to_py:seeking:"+key, "Python SeekingReader %s: %s", key, d); v != nil {
						return v
					}
				}
			}
			sk, _ := resp["seeking"].(map[string]any)
			if !cfg.SkipStatistics && sk != nil {
				if sv, ok := pyStats(sk["stats"]); ok {
					if f, d := compareStats(sv, c.Stats(), chunks, known); f != "" {
						if v := mk("go_to_py:seeking:statistics", "Python summary statistics %s = %s", f, d); v != nil {
							return v
						}
					}
				}
			}
		}
		if !cfg.SkipAttachmentIndex && len(c.Attachments) > 0 {
			if e, ok := resp["seeking_attachments_error"]; ok {
				if v := mk("go_to_py:seeking_attachments:py_error", "%v", e); v != nil {
					return v
				}
			} else if d := model.DiffSeq(noSize(c.Attachments), pyRecs(resp["seeking_attachments"])); d != "" {
				if v := mk("go_to_py:seeking:attachments", "Python SeekingReader attachments via the index: %s", d); v != nil {
					return v
				}
			}
			st.Inc("probe.py_attachment_index_used")
		}
		if !cfg.SkipMetadataIndex && len(c.Metadata) > 0 {
			if e, ok := resp["seeking_metadata_error"]; ok {
				if v := mk("go_to_py:seeking_metadata:py_error", "%v", e); v != nil {
					return v
				}
			} else if d := model.DiffSeq(c.Metadata, pyRecs(resp["seeking_metadata"])); d != "" {
				if v := mk("go_to_py:seeking:metadata", "Python SeekingReader metadata via the index: %s", d); v != nil {
					return v
				}
			}
		}
		return nil
	}
	// ---- py -> go -------------------------------------------------------------------
	resp, err := py.call(map[string]any{"cmd": "write", "ops": pyOps(*sc.WL), "opts": ex.Opts})
	st.Evaluations++
	if err != nil {
		if v := mk("py_to_go:writer:py_error", "Python writer failed: %v", err); v != nil {
			return v
		}
		return nil
	}
	img, err := base64.StdEncoding.DecodeString(str(resp["image"]))
	if err != nil {
		return viol(sc, "harness", "bad image from python: %v", err)
	}
	st.Event(uint64(len(img)))
	o := ex.Opts
	if kindsOf(*sc.WL) >= 2 && len(c.Messages) >= 1 {
		st.DistinctCase(fmt.Sprintf("py2go|ch%v cs%d idx%v%v rc%v rs%v st%v so%v crc%v%v|%s", o.UseChunking, bucket(o.ChunkSize/50), o.IndexAll, o.IndexTypes, o.RepeatChannels, o.RepeatSchemas, o.UseStatistics, o.UseSummaryOffsets, o.EnableCRCs, o.EnableDataCRCs, gen.Shape(*sc.WL)))
	}
	del := scen.Delivery{Kind: "hash_sizes", Seed: 3}
	lr := drive.LexAll(simdisk.NewSource(img, del, nil), drive.LexSpec{Validate: true, AttachCB: true, ComputeCRC: true})
	st.Evaluations++
	if lr.Panic != nil {
		return mk("py_to_go:lexer:go_error", "Go lexer panicked on a Python-written file: %s", lr.Panic)
	}
	if !lr.CleanEOF() {
		return mk("py_to_go:lexer:go_error", "Go lexer failed on a Python-written file: %v %v", lr.NewErr, lr.Err)
	}
	hdrs := project(lr.Recs, "header")
	if len(hdrs) != 1 || hdrs[0].Name != c.Profile || hdrs[0].Enc != c.Library {
		if v := mk("py_to_go:lexer:header", "Go lexer header differs from what Python wrote"); v != nil {
			return v
		}
	}
	dataSec := untilKind(lr.Recs, "data_end")
	if d := model.DiffSeq(stripBindings(c.Messages), project(dataSec, "message")); d != "" {
		if v := mk("py_to_go:lexer:messages", "Go lexer messages: %s", d); v != nil {
			return v
		}
	}
	defs := map[string]*model.Rec{}
	for _, s := range c.Schemas {
		defs[fmt.Sprint("schema", s.ID)] = s
	}
	for _, ch := range c.Channels {
		defs[fmt.Sprint("channel", ch.ID)] = ch
	}
	for _, r := range project(lr.Recs, "schema", "channel") {
		w, ok := defs[fmt.Sprint(r.Kind, r.ID)]
		if !ok {
			if v := mk("py_to_go:lexer:definitions", "%s id %d was never registered", r.Kind, r.ID); v != nil {
				return v
			}
			continue
		}
		if d := model.Diff(w, r); d != "" {
			if v := mk("py_to_go:lexer:definitions", "%s id %d: %s", r.Kind, r.ID, d); v != nil {
				return v
			}
		}
	}
	var gotAtt []*model.Rec
	for _, r := range lr.Recs {
		if strings.HasPrefix(r.Kind, "attachment") && r.Kind != "attachment_index" {
			gotAtt = append(gotAtt, r)
		}
	}
	var wantAtt []*model.Rec
	for _, a := range c.Attachments {
		cp := *a
		cp.CRC, cp.HasCRC = attachmentCRC(a), true
		wantAtt = append(wantAtt, &cp)
	}
	if d := model.DiffSeq(wantAtt, gotAtt); d != "" {
		if v := mk("py_to_go:lexer:attachments", "Go lexer attachments: %s", d); v != nil {
			return v
		}
	}
	if d := model.DiffSeq(c.Metadata, project(lr.Recs, "metadata")); d != "" {
		if v := mk("py_to_go:lexer:metadata", "Go lexer metadata: %s", d); v != nil {
			return v
		}
	}
	scan := drive.ReadMessages(simdisk.NewSource(img, del, nil), drive.ReadSpec{UseIndex: false, MetaCB: true})
	st.Evaluations++
	if scan.Panic != nil || scan.Terminal() != "eof" {
		return mk("py_to_go:scan:go_error", "Go scan failed on a Python-written file: %v %v", scan.Panic, scan.FirstErr())
	}
	if d := model.DiffSeq(c.Messages, scan.Msgs); d != "" {
		if v := mk("py_to_go:scan:messages", "Go scan: %s", d); v != nil {
			return v
		}
	}
	// Messages() with default options: through the index, or falling back to a scan - never fewer
	{
		dr := drive.ReadMessages(simdisk.NewSeekSource(img, del, nil), drive.ReadSpec{UseIndex: true, OmitUsingIndex: true})
		st.Evaluations++
		if dr.Panic != nil {
			return mk("py_to_go:default_read:go_error", "Go Messages() with default options panicked on a Python-written file: %s", dr.Panic)
		}
		if dr.Terminal() == "eof" {
			if d := model.DiffSeq(c.Messages, dr.Msgs); d != "" {
				if v := mk("py_to_go:default_read:messages", "Go Messages() with default options: %s", d); v != nil {
					return v
				}
			}
			st.Inc("probe.go_default_read_on_python_file")
		} else if fileIndexed(img) {
			return mk("py_to_go:default_read:go_error", "Go Messages() with default options ended with %s on an indexed Python-written file: %v", dr.Terminal(), dr.FirstErr())
		} else {
			st.Inc("probe.go_default_read_error_on_unindexed_python_file")
		}
	}
	// random access through the index entries the Python writer emitted
	{
		src := simdisk.NewSeekSource(img, del, nil)
		var rerr error
		var problem string
		pi := drive.Guard(func() {
			rd, err := mcap.NewReader(src)
			if err != nil {
				rerr = err
				return
			}
			defer rd.Close()
			info, err := rd.Info()
			if err != nil {
				rerr = err
				return
			}
			if len(info.MetadataIndexes) > 0 && len(info.MetadataIndexes) != len(c.Metadata) {
				problem = fmt.Sprintf("%d metadata index entries for %d metadata records", len(info.MetadataIndexes), len(c.Metadata))
				return
			}
			for i, mi := range info.MetadataIndexes {
				md, err := rd.GetMetadata(mi.Offset)
				if err != nil {
					problem = fmt.Sprintf("metadata %d via the index offset %d: %v", i, mi.Offset, err)
					return
				}
				if d := model.Diff(c.Metadata[i], drive.MetadataRec(md)); d != "" {
					problem = fmt.Sprintf("metadata %d via the index: %s", i, d)
					return
				}
				st.Inc("probe.go_metadata_random_access_on_python_file")
			}
			if len(info.AttachmentIndexes) > 0 && len(info.AttachmentIndexes) != len(c.Attachments) {
				problem = fmt.Sprintf("%d attachment index entries for %d attachments", len(info.AttachmentIndexes), len(c.Attachments))
				return
			}
			for i, ai := range info.AttachmentIndexes {
				ar, err := rd.GetAttachmentReader(ai.Offset)
				if err != nil {
					problem = fmt.Sprintf("attachment %d via the index offset %d: %v", i, ai.Offset, err)
					return
				}
				data, err := io.ReadAll(ar.Data())
				if err != nil {
					problem = fmt.Sprintf("attachment %d via the index: %v", i, err)
					return
				}
				got := &model.Rec{Kind: "attachment", LogTime: ar.LogTime, PubTime: ar.CreateTime, Name: ar.Name, Enc: ar.MediaType, Data: data}
				w := *c.Attachments[i]
				w.HasSize = false
				if d := model.Diff(&w, got); d != "" {
					problem = fmt.Sprintf("attachment %d via the index: %s", i, d)
					return
				}
			}
		})
		st.Evaluations++
		if pi != nil {
			return mk("py_to_go:random_access:go_error", "Go random access panicked on a Python-written file: %s", pi)
		}
		if rerr != nil {
			return mk("py_to_go:random_access:go_error", "Go NewReader/Info failed on a Python-written file: %v", rerr)
		}
		if problem != "" {
			if v := mk("py_to_go:random_access", "%s", problem); v != nil {
				return v
			}
		}
	}
	if fileIndexed(img) {
		st.Inc("probe.go_indexed_on_python_file")
		for order := 0; order <= 2; order++ {
			ir := drive.ReadMessages(simdisk.NewSeekSource(img, del, nil), drive.ReadSpec{UseIndex: true, Order: order})
			st.Evaluations++
			if ir.Panic != nil || ir.Terminal() != "eof" {
				return mk("py_to_go:indexed:go_error", "Go indexed read (order %d) failed on a Python-written file: %v %v", order, ir.Panic, ir.FirstErr())
			}
			var d string
			if order == 0 {
				d = model.DiffSeq(c.Messages, ir.Msgs)
			} else {
				d = sameMultiset(c.Messages, ir.Msgs)
				if d == "" {
					d = monotone(ir.Msgs, order)
				}
			}
			if d != "" {
				if v := mk("py_to_go:indexed:messages", "Go indexed read order %d: %s", order, d); v != nil {
					return v
				}
			}
		}
	}
	return nil
}
