package props

import (
	"bytes"
	"fmt"

	"pgregory.net/rapid"
	"verif/sim/internal/drive"
	"verif/sim/internal/gen"
	"verif/sim/internal/runner"
	"verif/sim/internal/scen"
	"verif/sim/internal/simdisk"
)

type c14 struct{ base }

func init() {
	runner.Register(&c14{base{
		id: "C14", level: "fault_enumeration",
		rule: "seeded search over writer call sequences x configurations; per workload one fault-free run yields N sink Write calls and the final image F; then the sink fault is enumerated exhaustively: for EVERY k<N the run is repeated with write call k failing as {error accepting 0 bytes, short count with io.ErrShortWrite, short count with ENOSPC} x {transient, permanent}; the caller keeps issuing the remaining calls and Close. oracle: the API call during which the failing write happened (journal tag) returns non-nil, no call panics, the bytes accepted up to the return of that call (and, for permanent faults, at the end) are a prefix of F. Every attachment is also written from a source that fails after j bytes, ends early, or delivers extra bytes, for every j. distinct by (config class, op-shape class, fault variant, API call kind hit)",
		assumptions: []string{
			"a short count with a nil error violates io.Writer's own contract and is not injected",
			"after a transient fault the caller continues; the prefix clause is evaluated at the return of the failing call",
		},
		batches: map[string]int{"quick": 64, "thorough": 96},
		checks:  map[string]int{"quick": 20, "thorough": 40},
	}})
}

func (p *c14) Draw(t *rapid.T, tier string) *runner.Scenario {
	lim := smallLimits(tier)
	lim.MaxOps = 20
	wl := gen.Workload(t, lim)
	cfg := gen.Cfg(t, lim)
	return &runner.Scenario{Cfg: &cfg, WL: &wl}
}

func apiKind(wl scen.Workload, api int) string {
	switch {
	case api < 0:
		return "NewWriter"
	case api == 0:
		return "WriteHeader"
	case api == len(wl.Ops)+1:
		return "Close"
	default:
		return "Write" + wl.Ops[api-1].Kind
	}
}

func (p *c14) sinkFault(sc *runner.Scenario, F []byte, f scen.Fault, st *runner.Stats, pin string) *runner.Violation {
	sink := simdisk.NewSink(&f)
	st.Doing(&f, "")
	res := drive.RunWriter(*sc.Cfg, *sc.WL, sink, drive.WriteOpts{})
	st.Evaluations++
	variant := f.Kind + "/" + f.Mode
	if f.Perm {
		variant += "/permanent"
	} else {
		variant += "/transient"
	}
	st.Event(uint64(f.Call), uint64(len(sink.Data)), uint64(sink.Fired))
	mk := func(clause, format string, a ...any) *runner.Violation {
		if !pinned(pin, clause) {
			return nil
		}
		cp := *sc
		cp.Fault = &f
		return viol(&cp, clause, "%s on sink write call %d: %s", variant, f.Call, fmt.Sprintf(format, a...))
	}
	if res.NewPanic != nil {
		return mk("panic", "NewWriter %s", res.NewPanic)
	}
	for i, pi := range res.Panics {
		if pi != nil {
			return mk("panic", "API call %d (%s) %s", i, apiKind(*sc.WL, i), pi)
		}
	}
	if sink.Fired == 0 {
		st.Inc("fault.not_fired.sink")
		return nil
	}
	st.Inc("fault." + variant)
	// which API call was in flight when write call f.Call happened
	var hit *simdisk.WriteEvent
	for i := range sink.Journal {
		if sink.Journal[i].Call == f.Call {
			hit = &sink.Journal[i]
		}
	}
	if hit == nil {
		return mk("harness", "journal has no entry for call %d", f.Call)
	}
	st.Inc("probe.hit." + apiKind(*sc.WL, hit.API))
	if hit.API < 0 {
		if res.NewErr == nil {
			return mk("error_swallowed", "NewWriter returned nil although its write to the destination failed")
		}
		if !bytes.HasPrefix(F, sink.Data) {
			return mk("not_prefix", "bytes accepted by the destination are not a prefix of the fault-free output")
		}
		return nil
	}
	if hit.API >= len(res.Errs) {
		return mk("harness", "API call %d not recorded", hit.API)
	}
	if res.Errs[hit.API] == nil {
		return mk("error_swallowed", "%s (API call %d) returned nil although destination write %d failed during it", apiKind(*sc.WL, hit.API), hit.API, f.Call)
	}
	upTo := res.LenAfter[hit.API]
	if upTo > int64(len(sink.Data)) {
		upTo = int64(len(sink.Data))
	}
	if !bytes.HasPrefix(F, sink.Data[:upTo]) {
		return mk("not_prefix", "the %d bytes accepted up to the return of %s are not a prefix of the fault-free output (%d bytes)", upTo, apiKind(*sc.WL, hit.API), len(F))
	}
	if f.Perm && !bytes.HasPrefix(F, sink.Data) {
		return mk("not_prefix", "destination failing permanently: the %d bytes it accepted in total are not a prefix of the fault-free output", len(sink.Data))
	}
	return nil
}

func (p *c14) attachFault(sc *runner.Scenario, opIdx int, f scen.Fault, st *runner.Stats, pin string) *runner.Violation {
	sink := simdisk.NewSink(nil)
	st.Doing(&f, fmt.Sprint(opIdx))
	res := drive.RunWriter(*sc.Cfg, *sc.WL, sink, drive.WriteOpts{AttachFault: &f, AttachOp: opIdx})
	st.Evaluations++
	st.Inc("fault." + f.Kind)
	st.Event(uint64(opIdx), uint64(f.Off), uint64(len(sink.Data)))
	mk := func(clause, format string, a ...any) *runner.Violation {
		if !pinned(pin, clause) {
			return nil
		}
		cp := *sc
		cp.Fault = &f
		cp.Mode = fmt.Sprint(opIdx)
		return viol(&cp, clause, "%s (off=%d len=%d) on the attachment of op %d: %s", f.Kind, f.Off, f.Len, opIdx, fmt.Sprintf(format, a...))
	}
	if res.NewPanic != nil {
		return mk("panic", "NewWriter %s", res.NewPanic)
	}
	for i, pi := range res.Panics {
		if pi != nil {
			return mk("panic", "API call %d (%s) %s", i, apiKind(*sc.WL, i), pi)
		}
	}
	api := opIdx + 1
	if api >= len(res.Errs) {
		return mk("harness", "API call %d not recorded", api)
	}
	if res.Errs[api] == nil {
		clause := "attachment_source_error_swallowed"
		if f.Kind != "attach_src_err" {
			clause = "attachment_size_mismatch_accepted"
		}
		return mk(clause, "WriteAttachment returned nil")
	}
	return nil
}

func (p *c14) Check(sc *runner.Scenario, st *runner.Stats, pin string) *runner.Violation {
	w, problem := build(*sc.Cfg, *sc.WL)
	st.Evaluations++
	st.Event(uint64(len(w.image)))
	if problem != "" {
		return viol(sc, "unexpected_error", "fault-free write failed: %s", problem)
	}
	F := w.image
	journal := w.wres.Sink.Journal
	if sc.Fault != nil {
		switch sc.Fault.Kind {
		case "write_err", "short_write":
			return p.sinkFault(sc, F, *sc.Fault, st, pin)
		default:
			var idx int
			fmt.Sscan(sc.Mode, &idx)
			return p.attachFault(sc, idx, *sc.Fault, st, pin)
		}
	}
	nontrivial := kindsOf(*sc.WL) >= 2 && len(w.content.Messages) >= 1
	st.Add("event.sink_writes", int64(len(journal)))
	for k, ev := range journal {
		var faults []scen.Fault
		for _, perm := range []bool{false, true} {
			faults = append(faults, scen.Fault{Kind: "write_err", Call: k, Perm: perm})
			if ev.Len >= 2 {
				acc := 1 + int(scen.Mix(uint64(k), uint64(ev.Len))%uint64(ev.Len-1))
				faults = append(faults, scen.Fault{Kind: "short_write", Call: k, Perm: perm, Accept: acc, Mode: "short"})
				faults = append(faults, scen.Fault{Kind: "short_write", Call: k, Perm: perm, Accept: ev.Len - 1, Mode: "enospc"})
			}
		}
		for _, f := range faults {
			if v := p.sinkFault(sc, F, f, st, pin); v != nil {
				return v
			}
			if nontrivial {
				st.DistinctCase(fmt.Sprintf("%s|%s|%s/%s/%v|%s", gen.CfgClass(*sc.Cfg), gen.Shape(*sc.WL), f.Kind, f.Mode, f.Perm, apiKind(*sc.WL, ev.API)))
			}
		}
	}
	// attachment sources
	for i, op := range sc.WL.Ops {
		if op.Kind != scen.OpAttachment {
			continue
		}
		size := op.Data.Size()
		step := 1
		if size > 64 {
			step = size / 64
		}
		for j := 0; j <= size; j += step {
			if v := p.attachFault(sc, i, scen.Fault{Kind: "attach_src_err", Off: int64(j)}, st, pin); v != nil {
				return v
			}
			if j < size {
				if v := p.attachFault(sc, i, scen.Fault{Kind: "attach_src_short", Off: int64(j)}, st, pin); v != nil {
					return v
				}
			}
		}
		for _, extra := range []int64{1, 7, 4096} {
			if v := p.attachFault(sc, i, scen.Fault{Kind: "attach_src_long", Len: extra}, st, pin); v != nil {
				return v
			}
		}
		st.Inc("probe.attachment_sources_faulted")
	}
	return nil
}
