// Package props holds one check per property.
package props

import (
	"encoding/binary"
	"fmt"
	"hash/crc32"
	"strings"

	"verif/sim/internal/drive"
	"verif/sim/internal/gen"
	"verif/sim/internal/model"
	"verif/sim/internal/refmcap"
	"verif/sim/internal/runner"
	"verif/sim/internal/scen"
	"verif/sim/internal/simdisk"
)

type base struct {
	id, level, rule string
	assumptions     []string
	batches         map[string]int
	checks          map[string]int
}

func (b *base) ID() string                  { return b.id }
func (b *base) Level() string               { return b.level }
func (b *base) Rule() string                { return b.rule }
func (b *base) Assumptions() []string       { return b.assumptions }
func (b *base) Batches(t string) int        { return b.batches[t] }
func (b *base) ChecksPerBatch(t string) int { return b.checks[t] }

func viol(sc *runner.Scenario, clause, format string, a ...any) *runner.Violation {
	d := fmt.Sprintf(format, a...)
	if len(d) > 600 {
		d = d[:600] + "..."
	}
	return &runner.Violation{Clause: clause, Detail: d, Scenario: sc}
}

// pinned reports whether a violation with this clause may be reported.
func pinned(pin, clause string) bool { return pin == "" || pin == clause }

func limitsFor(tier string) gen.Limits {
	if tier == "thorough" {
		return gen.Limits{MaxOps: 120, MaxPayload: 200000, MaxTotal: 1500000}
	}
	return gen.Quick
}

// world is a fault-free written file plus everything known about it.
type world struct {
	cfg     scen.Cfg
	wl      scen.Workload
	content *model.Content
	image   []byte
	wres    *drive.WriteResult
	file    *refmcap.File // reference decode (nil + err when undecodable)
	fileErr error
}

// build writes the workload fault-free. problem is non-empty when the writer
// returned an error or panicked although nothing was injected.
func build(cfg scen.Cfg, wl scen.Workload) (*world, string) {
	w := &world{cfg: cfg, wl: wl}
	w.content = model.FromWorkload(wl)
	sink := simdisk.NewSink(nil)
	w.wres = drive.RunWriter(cfg, wl, sink, drive.WriteOpts{})
	w.image = sink.Data
	if p := w.wres.FirstProblem(); p != "" {
		return w, p
	}
	w.file, w.fileErr = refmcap.Decode(w.image, refmcap.DecodeOptions{SkipMagic: cfg.SkipMagic, Custom: drive.RefDecompressors()})
	return w, ""
}

func (w *world) chunkCount() int {
	if w.file == nil {
		return 0
	}
	n := 0
	for _, r := range w.file.Records {
		if r.Op == refmcap.OpChunk {
			n++
		}
	}
	return n
}

// attachmentCRC is the spec's attachment CRC over log_time..data.
func attachmentCRC(r *model.Rec) uint32 {
	var b []byte
	b = binary.LittleEndian.AppendUint64(b, r.LogTime)
	b = binary.LittleEndian.AppendUint64(b, r.PubTime)
	b = binary.LittleEndian.AppendUint32(b, uint32(len(r.Name)))
	b = append(b, r.Name...)
	b = binary.LittleEndian.AppendUint32(b, uint32(len(r.Enc)))
	b = append(b, r.Enc...)
	b = binary.LittleEndian.AppendUint64(b, uint64(len(r.Data)))
	b = append(b, r.Data...)
	return crc32.ChecksumIEEE(b)
}

// project filters recs by kind.
func project(recs []*model.Rec, kinds ...string) []*model.Rec {
	var out []*model.Rec
	for _, r := range recs {
		for _, k := range kinds {
			if r.Kind == k {
				out = append(out, r)
				break
			}
		}
	}
	return out
}

// untilKind returns the records before the first record of kind k.
func untilKind(recs []*model.Rec, k string) []*model.Rec {
	for i, r := range recs {
		if r.Kind == k {
			return recs[:i]
		}
	}
	return recs
}

func stripBindings(recs []*model.Rec) []*model.Rec {
	out := make([]*model.Rec, len(recs))
	for i, r := range recs {
		c := *r
		c.BoundChannel, c.BoundSchema = nil, nil
		out[i] = &c
	}
	return out
}

func kindsOf(wl scen.Workload) int {
	seen := map[string]bool{}
	for _, o := range wl.Ops {
		seen[o.Kind] = true
	}
	return len(seen)
}

func hasMaxTime(wl scen.Workload) bool {
	for _, o := range wl.Ops {
		if o.Kind == scen.OpMessage && o.LogTime == 1<<64-1 {
			return true
		}
	}
	return false
}

func errStr(err error) string {
	if err == nil {
		return "<nil>"
	}
	return err.Error()
}

func short(s string) string {
	s = strings.ReplaceAll(s, "\n", " ")
	if len(s) > 300 {
		return s[:300] + "..."
	}
	return s
}
