package props

import (
	"fmt"
	"io"

	"github.com/foxglove/mcap/go/mcap"
	"pgregory.net/rapid"
	"verif/sim/internal/drive"
	"verif/sim/internal/gen"
	"verif/sim/internal/model"
	"verif/sim/internal/refmcap"
	"verif/sim/internal/runner"
	"verif/sim/internal/simdisk"
)

type c02 struct{ base }

func init() {
	runner.Register(&c02{base{
		id: "C02", level: "exploration",
		rule: "seeded search over writer call sequences x configurations x benign delivery; for configurations that keep chunk indexes + repeated schemas + repeated channels the indexed file-order read must equal the scan element-wise (log-time orders: same multiset, monotone); for every other configuration the read must equal the scan or fail with an error - a clean EOF with fewer messages is silent_loss. Every attachment/metadata index entry is fetched by random access and compared with what was written; the metadata callback must see all records (scan) / all indexed ones (indexed). non-trivial: >=2 messages on >=1 channel and >=2 chunks; distinct by (config class, op-shape class, order, delivery kind)",
		assumptions: []string{
			"the scan result used as the reference has itself been compared with the model (same check, clause scan_ne_model)",
			"files without leading magic cannot be opened by NewReader and are skipped",
		},
		batches: map[string]int{"quick": 48, "thorough": 96},
		checks:  map[string]int{"quick": 120, "thorough": 250},
	}})
}

func (p *c02) Draw(t *rapid.T, tier string) *runner.Scenario {
	lim := limitsFor(tier)
	lim.NoCustom = true
	lim.MaxPayload = 400
	wl := gen.Workload(t, lim)
	cfg := gen.Cfg(t, lim)
	cfg.SkipMagic = false
	switch rapid.IntRange(0, 5).Draw(t, "cfg_mode") {
	case 0, 1, 2: // the spec's precondition for indexed reading
		cfg.Chunked = true
		if cfg.ChunkSize == 0 {
			cfg.ChunkSize = 100
		}
		cfg.SkipChunkIndex, cfg.SkipRepeatedSchemas, cfg.SkipRepeatedChannelInfos = false, false, false
	case 3: // chunk indexes kept, repeats dropped
		cfg.Chunked = true
		cfg.SkipChunkIndex = false
		cfg.SkipRepeatedChannelInfos = rapid.Bool().Draw(t, "skip_rch")
		cfg.SkipRepeatedSchemas = rapid.Bool().Draw(t, "skip_rsh")
	}
	del := gen.Delivery(t)
	rd := drive.ReadSpec{UseIndex: true, Order: rapid.IntRange(0, 2).Draw(t, "order"), MetaCB: true,
		NextMode:       pick(t, "read.next", "into_nil", "next_nil", "into_reuse", "next_buf"),
		OmitUsingIndex: rapid.Bool().Draw(t, "omit_using_index"),
		InfoFirst:      rapid.Bool().Draw(t, "info_first")}
	return &runner.Scenario{Cfg: &cfg, WL: &wl, Delivery: &del, Read: &rd}
}

func msgKey(r *model.Rec) string {
	return fmt.Sprintf("%d/%d/%d/%d/%x", r.ChannelID, r.Seq, r.LogTime, r.PubTime, r.Data)
}

// sameMultiset compares two message lists as multisets of full triples.
func sameMultiset(a, b []*model.Rec) string {
	if len(a) != len(b) {
		return fmt.Sprintf("%d vs %d messages", len(a), len(b))
	}
	cnt := map[string]int{}
	byKey := map[string]*model.Rec{}
	for _, r := range a {
		cnt[msgKey(r)]++
		byKey[msgKey(r)] = r
	}
	for _, r := range b {
		k := msgKey(r)
		cnt[k]--
		if cnt[k] < 0 {
			return fmt.Sprintf("message seq=%d log_time=%d returned more often than it was written", r.Seq, r.LogTime)
		}
		if d := model.Diff(byKey[k], r); d != "" {
			return fmt.Sprintf("message seq=%d: %s", r.Seq, d)
		}
	}
	return ""
}

func monotone(msgs []*model.Rec, order int) string {
	for i := 1; i < len(msgs); i++ {
		if order == 1 && msgs[i].LogTime < msgs[i-1].LogTime {
			return fmt.Sprintf("log time decreases at %d: %d after %d", i, msgs[i].LogTime, msgs[i-1].LogTime)
		}
		if order == 2 && msgs[i].LogTime > msgs[i-1].LogTime {
			return fmt.Sprintf("log time increases at %d: %d after %d", i, msgs[i].LogTime, msgs[i-1].LogTime)
		}
	}
	return ""
}

func (p *c02) Check(sc *runner.Scenario, st *runner.Stats, pin string) *runner.Violation {
	w, problem := build(*sc.Cfg, *sc.WL)
	st.Evaluations++
	st.Add("event.api_calls", int64(len(w.wres.Errs)+1))
	st.Add("event.sink_writes", int64(w.wres.Sink.Calls()))
	st.Event(uint64(len(w.image)), uint64(w.wres.Sink.Calls()))
	if problem != "" {
		return viol(sc, "unexpected_error", "fault-free write failed: %s", problem)
	}
	if w.fileErr != nil {
		return viol(sc, "unexpected_error", "reference decoder cannot frame the file: %v", w.fileErr)
	}
	cfg := sc.Cfg
	c := w.content
	chunks := w.chunkCount()
	// the spec's precondition for indexed reading: the summary carries chunk
	// indexes together with the repeated schema and channel records. A file in
	// which no channel was ever written has nothing to repeat, so its summary
	// cannot tell an indexed reader that there are no messages; it is treated
	// under the fall-back-or-error clause like every other configuration.
	precondition := cfg.Chunked && !cfg.SkipChunkIndex && !cfg.SkipRepeatedSchemas && !cfg.SkipRepeatedChannelInfos && len(c.Channels) > 0
	if len(c.Messages) >= 2 && chunks >= 2 {
		st.DistinctCase(fmt.Sprintf("%s|%s|o%d|%s|pre=%v", gen.CfgClass(*cfg), gen.Shape(*sc.WL), sc.Read.Order, sc.Delivery.Kind, precondition))
	}
	// scan
	scanSrc := simdisk.NewSeekSource(w.image, *sc.Delivery, nil)
	scan := drive.ReadMessages(scanSrc, drive.ReadSpec{UseIndex: false, MetaCB: true})
	st.Evaluations++
	st.Add("event.source_reads", int64(scanSrc.St.Reads))
	st.Event(scanSrc.St.EventHash)
	if scan.Panic != nil {
		return viol(sc, "panic", "scan: %s", scan.Panic)
	}
	if scan.Terminal() != "eof" {
		return viol(sc, "unexpected_error", "scan ended with %s: %v", scan.Terminal(), scan.FirstErr())
	}
	if d := model.DiffSeq(c.Messages, scan.Msgs); d != "" {
		return viol(sc, "scan_ne_model", "scan vs written: %s", d)
	}
	if d := model.DiffSeq(c.Metadata, scan.Metadata); d != "" && pinned(pin, "metadata_callback_missing") {
		return viol(sc, "metadata_callback_missing", "sequential read metadata callback: %s", d)
	}
	// indexed
	idxSrc := simdisk.NewSeekSource(w.image, *sc.Delivery, nil)
	ir := drive.ReadMessages(idxSrc, *sc.Read)
	st.Evaluations++
	st.Add("event.source_reads", int64(idxSrc.St.Reads))
	st.Add("event.source_seeks", int64(idxSrc.St.Seeks))
	st.Event(idxSrc.St.EventHash, uint64(len(ir.Msgs)))
	if ir.Panic != nil {
		return viol(sc, "panic", "indexed read: %s", ir.Panic)
	}
	if ir.Mutated != "" {
		return viol(sc, "retained_value_mutated", "indexed read: %s", ir.Mutated)
	}
	_, usedIndex := ir.Iter.(interface {
		Next([]byte) (*mcap.Schema, *mcap.Channel, *mcap.Message, error)
	})
	_ = usedIndex
	if precondition {
		st.Inc("probe.precondition_config")
		if ir.Terminal() != "eof" {
			if pinned(pin, "indexed_error") {
				return viol(sc, "indexed_error", "indexed read (order %d) on a fully indexed file ended with %s: %v", sc.Read.Order, ir.Terminal(), ir.FirstErr())
			}
			return nil
		}
		if sc.Read.Order == 0 {
			if d := model.DiffSeq(scan.Msgs, ir.Msgs); d != "" && pinned(pin, "indexed_ne_scan") {
				return viol(sc, "indexed_ne_scan", "file-order indexed read vs scan: %s", d)
			}
		} else {
			if d := sameMultiset(scan.Msgs, ir.Msgs); d != "" && pinned(pin, "indexed_ne_scan") {
				return viol(sc, "indexed_ne_scan", "order %d indexed read vs scan as multisets: %s", sc.Read.Order, d)
			}
			if d := monotone(ir.Msgs, sc.Read.Order); d != "" && pinned(pin, "indexed_ne_scan") {
				return viol(sc, "indexed_ne_scan", "order %d: %s", sc.Read.Order, d)
			}
		}
	} else {
		st.Inc("probe.other_config")
		switch ir.Terminal() {
		case "eof":
			if len(ir.Msgs) < len(scan.Msgs) {
				if pinned(pin, "silent_loss") {
					return viol(sc, "silent_loss", "indexed read (order %d) ended with clean EOF after %d messages, the scan returns %d", sc.Read.Order, len(ir.Msgs), len(scan.Msgs))
				}
				return nil
			}
			var d string
			if sc.Read.Order == 0 {
				d = model.DiffSeq(scan.Msgs, ir.Msgs)
			} else {
				d = sameMultiset(scan.Msgs, ir.Msgs)
				if d == "" {
					d = monotone(ir.Msgs, sc.Read.Order)
				}
			}
			if d != "" && pinned(pin, "indexed_ne_scan") {
				return viol(sc, "indexed_ne_scan", "read on a partially indexed file returned without error but differs from the scan: %s", d)
			}
			st.Inc("probe.fallback_or_index_ok")
		default:
			st.Inc("probe.fallback_error")
			// an error is acceptable; what was returned before must still be real messages
			if sc.Read.Order == 0 {
				if ok, d := model.IsPrefix(scan.Msgs, ir.Msgs); !ok && pinned(pin, "indexed_ne_scan") {
					return viol(sc, "indexed_ne_scan", "messages returned before the error are not a prefix of the scan: %s", d)
				}
			}
		}
	}
	// metadata callback on the index-based read: every indexed record when the
	// index was used; a fallen-back read may deliver all
	if ir.Terminal() == "eof" {
		var mdIdx int
		for _, r := range w.file.Records {
			if r.Op == refmcap.OpMetadataIndex {
				mdIdx++
			}
		}
		want := c.Metadata
		if len(ir.Metadata) != len(want) || model.DiffSeq(want, ir.Metadata) != "" {
			// acceptable alternative: exactly the indexed ones (all or none for the Go writer)
			if !(mdIdx == 0 && len(ir.Metadata) == 0) && pinned(pin, "metadata_callback_missing") {
				return viol(sc, "metadata_callback_missing", "indexed read delivered %d metadata records to the callback; file has %d (%d indexed): %s", len(ir.Metadata), len(want), mdIdx, model.DiffSeq(want, ir.Metadata))
			}
		}
	}
	// random access through Info's index entries
	src := simdisk.NewSeekSource(w.image, *sc.Delivery, nil)
	var rd *mcap.Reader
	var info *mcap.Info
	var oerr, ierr error
	pi := drive.Guard(func() {
		rd, oerr = mcap.NewReader(src)
		if oerr == nil {
			info, ierr = rd.Info()
		}
	})
	st.Evaluations++
	if pi != nil {
		return viol(sc, "panic", "Info: %s", pi)
	}
	if oerr != nil || ierr != nil {
		return viol(sc, "unexpected_error", "NewReader/Info on a fault-free file: %v %v", oerr, ierr)
	}
	defer rd.Close()
	if !cfg.SkipAttachmentIndex && len(info.AttachmentIndexes) != len(c.Attachments) && pinned(pin, "attachment_random_access") {
		return viol(sc, "attachment_random_access", "Info has %d attachment indexes, %d attachments were written", len(info.AttachmentIndexes), len(c.Attachments))
	}
	for i, ai := range info.AttachmentIndexes {
		if i >= len(c.Attachments) {
			break
		}
		want := c.Attachments[i]
		var got *model.Rec
		var err error
		pi := drive.Guard(func() {
			var ar *mcap.AttachmentReader
			ar, err = rd.GetAttachmentReader(ai.Offset)
			if err != nil {
				return
			}
			got = &model.Rec{Kind: "attachment", LogTime: ar.LogTime, PubTime: ar.CreateTime, Name: ar.Name, Enc: ar.MediaType}
			got.Data, err = io.ReadAll(ar.Data())
			if err != nil {
				return
			}
			var computed, parsed uint32
			if computed, err = ar.ComputedCRC(); err != nil {
				return
			}
			if parsed, err = ar.ParsedCRC(); err != nil {
				return
			}
			if computed != parsed {
				err = fmt.Errorf("computed crc %08x != parsed crc %08x", computed, parsed)
			}
			got.CRC, got.HasCRC = parsed, true
		})
		st.Inc("probe.attachment_random_access")
		if pi != nil {
			return viol(sc, "panic", "GetAttachmentReader: %s", pi)
		}
		if err != nil {
			if pinned(pin, "attachment_random_access") {
				return viol(sc, "attachment_random_access", "attachment %d via index offset %d: %v", i, ai.Offset, err)
			}
			continue
		}
		wc := *want
		wc.CRC, wc.HasCRC = attachmentCRC(want), true
		if d := model.Diff(&wc, got); d != "" && pinned(pin, "attachment_random_access") {
			return viol(sc, "attachment_random_access", "attachment %d via index offset %d: %s", i, ai.Offset, d)
		}
	}
	if !cfg.SkipMetadataIndex && len(info.MetadataIndexes) != len(c.Metadata) && pinned(pin, "metadata_random_access") {
		return viol(sc, "metadata_random_access", "Info has %d metadata indexes, %d metadata records were written", len(info.MetadataIndexes), len(c.Metadata))
	}
	for i, mi := range info.MetadataIndexes {
		if i >= len(c.Metadata) {
			break
		}
		var md *mcap.Metadata
		var err error
		pi := drive.Guard(func() { md, err = rd.GetMetadata(mi.Offset) })
		st.Inc("probe.metadata_random_access")
		if pi != nil {
			return viol(sc, "panic", "GetMetadata: %s", pi)
		}
		if err != nil {
			if pinned(pin, "metadata_random_access") {
				return viol(sc, "metadata_random_access", "metadata %d via index offset %d: %v", i, mi.Offset, err)
			}
			continue
		}
		if d := model.Diff(c.Metadata[i], drive.MetadataRec(md)); d != "" && pinned(pin, "metadata_random_access") {
			return viol(sc, "metadata_random_access", "metadata %d via index offset %d: %s", i, mi.Offset, d)
		}
	}
	return nil
}
