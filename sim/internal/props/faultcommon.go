package props

import (
	"bytes"
	"fmt"
	"io"
	"sort"
	"strings"

	"github.com/foxglove/mcap/go/mcap"

	"verif/sim/internal/drive"
	"verif/sim/internal/model"
	"verif/sim/internal/refmcap"
	"verif/sim/internal/scen"
	"verif/sim/internal/simdisk"
)

// seqResult is the outcome of one sequential read (lexer or scan iterator) in
// comparable form.
type seqResult struct {
	recs     []*model.Rec
	terminal string // "eof", "error", "panic", "open_error", "messages_error"
	err      error
	panic    *drive.PanicInfo
	srcStats simdisk.SourceStats
	again    []string // outcomes of the calls made after the terminal error (sticky read faults only)
}

// readerMode names a way of reading sequentially or through the index.
//
//	lexer        NewLexer, chunk CRC validation off, attachment callback draining
//	lexer_crc    same with ValidateChunkCRCs
//	scan         NewReader(...).Messages(UsingIndex(false)) on a non-seekable source
//	indexed0/1/2 NewReader(...).Messages(UsingIndex(true), InOrder(o)) on a seekable source
type readerMode string

func lexSpecFor(mode readerMode, cfg scen.Cfg) drive.LexSpec {
	return drive.LexSpec{Validate: mode == "lexer_crc", AttachCB: true, ComputeCRC: true, Custom: true, SkipMagic: cfg.SkipMagic, MaxTokens: 200000}
}

// keepKinds: the record kinds that make up "the record sequence" of a lexer read.
func contentRecs(recs []*model.Rec) []*model.Rec {
	var out []*model.Rec
	for _, r := range recs {
		switch {
		case r.Kind == "header", r.Kind == "schema", r.Kind == "channel", r.Kind == "message", r.Kind == "metadata",
			strings.HasPrefix(r.Kind, "attachment") && r.Kind != "attachment_index",
			r.Kind == "statistics", r.Kind == "chunk_index", r.Kind == "attachment_index", r.Kind == "metadata_index",
			r.Kind == "summary_offset", r.Kind == "data_end", r.Kind == "footer", r.Kind == "message_index", r.Kind == "invalid_chunk":
			out = append(out, r)
		}
	}
	return out
}

// nextModeFor picks how the consumer receives messages (fresh or reused Message / buffer) as a
// function of the image length, so that the cuts of one file go through all four ways.
func nextModeFor(img []byte) string {
	return []string{"into_nil", "next_nil", "into_reuse", "next_buf"}[len(img)%4]
}

// anchorToModel compares a fault-free message read with the content model of the workload
// (the fault checks themselves compare a reader with itself on the undamaged file).
func anchorToModel(mode readerMode, full *seqResult, w *world) string {
	if mode != "scan" && mode != "indexed0" {
		return ""
	}
	want := w.content.Messages
	if len(full.recs) != len(want) {
		return fmt.Sprintf("%d messages returned, %d were written", len(full.recs), len(want))
	}
	for i := range want {
		if d := model.Diff(want[i], full.recs[i]); d != "" {
			return fmt.Sprintf("message %d: %s", i, d)
		}
	}
	return ""
}

func runSeq(mode readerMode, img []byte, cfg scen.Cfg, del scen.Delivery, fault *scen.Fault) *seqResult {
	return runSeqAgain(mode, img, cfg, del, fault, 0)
}

// runSeqAgain: pollAgain > 0 makes the consumer call that many more times after the read
// ended with an error; whatever those calls return is appended to recs (and judged like the rest).
func runSeqAgain(mode readerMode, img []byte, cfg scen.Cfg, del scen.Delivery, fault *scen.Fault, pollAgain int) *seqResult {
	res := &seqResult{}
	// a medium that has failed for good (every Read fails from some call on): the consumer polls a
	// few more times after the error. Not done for an unreadable byte at one position: a seeking
	// reader may legitimately get past it on a later call (after a failed metadata read the indexed
	// iterator goes on to the messages), and the property does not say what such calls return.
	again := pollAgain
	if fault != nil && fault.Sticky && fault.Kind == "read_err_call" {
		again = 3
	}
	switch mode {
	case "lexer", "lexer_crc":
		src := simdisk.NewSource(img, del, fault)
		spec := lexSpecFor(mode, cfg)
		spec.AgainAfterErr = again
		lr := drive.LexAll(src, spec)
		res.again = lr.Again
		res.recs = contentRecs(lr.Recs)
		res.terminal = lr.Terminal()
		res.err = lr.Err
		if lr.NewErr != nil {
			res.err = lr.NewErr
		}
		res.panic = lr.Panic
		res.srcStats = src.St
	case "lexer_seek":
		// a seekable source and no attachment callback: attachment bodies are skipped with Seek
		src := simdisk.NewSeekSource(img, del, fault)
		lr := drive.LexAll(src, drive.LexSpec{Custom: true, SkipMagic: cfg.SkipMagic, MaxTokens: 200000})
		res.recs = contentRecs(lr.Recs)
		res.terminal = lr.Terminal()
		res.err = lr.Err
		if lr.NewErr != nil {
			res.err = lr.NewErr
		}
		res.panic = lr.Panic
		res.srcStats = src.St
	case "scan":
		src := simdisk.NewSource(img, del, fault)
		ir := drive.ReadMessages(src, drive.ReadSpec{UseIndex: false, MetaCB: true, MaxMsgs: 200000, AgainAfterErr: again, NextMode: nextModeFor(img)})
		res.again = ir.Again
		res.recs = ir.Msgs
		res.terminal = ir.Terminal()
		res.err = ir.FirstErr()
		res.panic = ir.Panic
		res.srcStats = src.St
	case "indexed0", "indexed1", "indexed2":
		src := simdisk.NewSeekSource(img, del, fault)
		ir := drive.ReadMessages(src, drive.ReadSpec{UseIndex: true, Order: int(mode[7] - '0'), MetaCB: true, MaxMsgs: 200000, AgainAfterErr: again, NextMode: nextModeFor(img)})
		res.again = ir.Again
		res.recs = ir.Msgs
		res.terminal = ir.Terminal()
		res.err = ir.FirstErr()
		res.panic = ir.Panic
		res.srcStats = src.St
	case "info", "random_access":
		src := simdisk.NewSeekSource(img, del, fault)
		res.terminal = "eof"
		pi := drive.Guard(func() {
			rd, err := mcap.NewReader(src)
			if err != nil {
				res.terminal, res.err = "open_error", err
				return
			}
			defer rd.Close()
			info, err := rd.Info()
			if err != nil {
				res.terminal, res.err = "error", err
				return
			}
			if mode == "info" {
				var ids []int
				for id := range info.Schemas {
					ids = append(ids, int(id))
				}
				sort.Ints(ids)
				for _, id := range ids {
					res.recs = append(res.recs, drive.SchemaRec(info.Schemas[uint16(id)]))
				}
				ids = ids[:0]
				for id := range info.Channels {
					ids = append(ids, int(id))
				}
				sort.Ints(ids)
				for _, id := range ids {
					res.recs = append(res.recs, drive.ChannelRec(info.Channels[uint16(id)]))
				}
				res.recs = append(res.recs, &model.Rec{Kind: "counts", Name: fmt.Sprintf("chunks=%d attachments=%d metadata=%d stats=%v", len(info.ChunkIndexes), len(info.AttachmentIndexes), len(info.MetadataIndexes), info.Statistics != nil)})
				return
			}
			for _, ai := range info.AttachmentIndexes {
				ar, err := rd.GetAttachmentReader(ai.Offset)
				if err != nil {
					res.terminal, res.err = "error", err
					return
				}
				r := &model.Rec{Kind: "attachment", LogTime: ar.LogTime, PubTime: ar.CreateTime, Name: ar.Name, Enc: ar.MediaType}
				data, err := io.ReadAll(ar.Data())
				r.Data = data
				if err != nil {
					r.Kind = "attachment_partial"
					res.recs = append(res.recs, r)
					res.terminal, res.err = "error", err
					return
				}
				res.recs = append(res.recs, r)
				if _, err := ar.ParsedCRC(); err != nil {
					res.terminal, res.err = "error", err
					return
				}
			}
			for _, mi := range info.MetadataIndexes {
				md, err := rd.GetMetadata(mi.Offset)
				if err != nil {
					res.terminal, res.err = "error", err
					return
				}
				res.recs = append(res.recs, drive.MetadataRec(md))
			}
		})
		res.panic = pi
		if pi != nil {
			res.terminal = "panic"
		}
		res.srcStats = src.St
	default:
		panic("harness: unknown reader mode " + string(mode))
	}
	return res
}

// prefixWithPartial checks that got is a prefix of want where the last element
// of got may be an attachment that surfaced with fewer data bytes (cut inside
// its data) or without its CRC.
func prefixWithPartial(want, got []*model.Rec) (bool, string) {
	if len(got) > len(want) {
		return false, fmt.Sprintf("returned %d records, the full read has %d; first extra is a %s", len(got), len(want), got[len(want)].Kind)
	}
	for i := range got {
		w, g := want[i], got[i]
		if strings.HasPrefix(g.Kind, "attachment") && g.Kind != w.Kind && strings.HasPrefix(w.Kind, "attachment") {
			if i != len(got)-1 {
				return false, fmt.Sprintf("element %d: partial attachment is not the last record returned", i)
			}
			wc, gc := *w, *g
			gc.Kind = wc.Kind
			gc.HasCRC = false
			if len(gc.Data) > len(wc.Data) || !bytes.Equal(wc.Data[:len(gc.Data)], gc.Data) {
				return false, fmt.Sprintf("element %d: partial attachment data (%d bytes) is not a prefix of the original %d bytes", i, len(gc.Data), len(wc.Data))
			}
			gc.Data = wc.Data
			if d := model.Diff(&wc, &gc); d != "" {
				return false, fmt.Sprintf("element %d (partial attachment): %s", i, d)
			}
			continue
		}
		if d := model.Diff(w, g); d != "" {
			return false, fmt.Sprintf("element %d (%s): %s", i, w.Kind, d)
		}
	}
	return true, ""
}

func countKind(recs []*model.Rec, kind string) int {
	n := 0
	for _, r := range recs {
		if r.Kind == kind {
			n++
		}
	}
	return n
}

// regionOf names the FileMap region a byte offset falls in: "<Record>.<field>"
// at top level, "magic", or "Chunk.records" for stored chunk payload.
func regionOf(f *refmcap.File, off int64, skipMagic bool) string {
	if f == nil {
		return "unknown"
	}
	if !skipMagic && off < 8 {
		return "magic_start"
	}
	if off >= f.Size-8 {
		return "magic_end"
	}
	for _, r := range f.Records {
		if off < r.Off || off >= r.End() {
			continue
		}
		name := refmcap.OpName(r.Op)
		for _, fl := range r.Fields {
			if off >= fl.Off && off < fl.Off+int64(fl.Width) {
				return name + "." + fl.Name
			}
		}
		return name + ".padding"
	}
	return "unknown"
}
