package props

import (
	"fmt"
	"math"
	"sort"

	"github.com/foxglove/mcap/go/mcap"
	"pgregory.net/rapid"
	"verif/sim/internal/drive"
	"verif/sim/internal/gen"
	"verif/sim/internal/model"
	"verif/sim/internal/refmcap"
	"verif/sim/internal/runner"
	"verif/sim/internal/scen"
	"verif/sim/internal/simdisk"
)

type c08 struct{ base }

func init() {
	runner.Register(&c08{base{
		id: "C08", level: "exploration",
		rule: "seeded search over writer call sequences (biased to log time 0, descending times across chunk boundaries, message-less chunks, channels without messages, identical re-writes, unchunked files) x configurations; Writer.Statistics after Close, the statistics record decoded by refmcap and Reader.Info are compared with the model's true aggregates; Info's listings are compared with refmcap's decode of the same summary. non-trivial: >=2 messages and (if chunked) >=2 chunks; distinct by (config class, op-shape class, time-pattern class)",
		assumptions: []string{
			"chunk count ground truth = number of chunk records in the file as decoded by refmcap",
			"Info is not requested for files without leading magic (NewReader has no SkipMagic)",
		},
		batches: map[string]int{"quick": 48, "thorough": 96},
		checks:  map[string]int{"quick": 150, "thorough": 250},
	}})
}

func (p *c08) Draw(t *rapid.T, tier string) *runner.Scenario {
	lim := limitsFor(tier)
	lim.SmallTimes = rapid.IntRange(0, 2).Draw(t, "small_times") != 0
	lim.MaxPayload = 200
	lim.Rejects = true
	wl := gen.Workload(t, lim)
	if rapid.IntRange(0, 5).Draw(t, "uniform_time") == 0 {
		// every message at one and the same corner value: the earliest and the latest time coincide
		// with what an implementation may use as "nothing seen yet"
		v := pick(t, "uniform_time.value", uint64(0), uint64(1), uint64(1<<63-1), uint64(1<<63), uint64(math.MaxUint64-1), uint64(math.MaxUint64))
		for i := range wl.Ops {
			if wl.Ops[i].Kind == scen.OpMessage {
				wl.Ops[i].LogTime = v
			}
		}
	}
	cfg := gen.Cfg(t, lim)
	if rapid.IntRange(0, 3).Draw(t, "force_stats") != 0 {
		cfg.SkipStatistics = false
	}
	del := gen.Delivery(t)
	return &runner.Scenario{Cfg: &cfg, WL: &wl, Delivery: &del}
}

func timePattern(wl scen.Workload) string {
	var prev uint64
	first := true
	zero, desc, ties := false, false, false
	for _, o := range wl.Ops {
		if o.Kind != scen.OpMessage {
			continue
		}
		if o.LogTime == 0 {
			zero = true
		}
		if !first {
			if o.LogTime < prev {
				desc = true
			}
			if o.LogTime == prev {
				ties = true
			}
		}
		prev = o.LogTime
		first = false
	}
	return fmt.Sprintf("z%vd%vt%v", zero, desc, ties)
}

type statsView struct {
	MessageCount                                             uint64
	SchemaCount                                              uint64
	ChannelCount, AttachmentCount, MetadataCount, ChunkCount uint64
	Start, End                                               uint64
	PerChannel                                               map[uint16]uint64
}

func viewOfMcap(s *mcap.Statistics) statsView {
	v := statsView{MessageCount: s.MessageCount, SchemaCount: uint64(s.SchemaCount), ChannelCount: uint64(s.ChannelCount), AttachmentCount: uint64(s.AttachmentCount),
		MetadataCount: uint64(s.MetadataCount), ChunkCount: uint64(s.ChunkCount), Start: s.MessageStartTime, End: s.MessageEndTime, PerChannel: map[uint16]uint64{}}
	for k, c := range s.ChannelMessageCounts {
		v.PerChannel[k] = c
	}
	return v
}

func viewOfRef(s *refmcap.Statistics) (statsView, string) {
	v := statsView{MessageCount: s.MessageCount, SchemaCount: uint64(s.SchemaCount), ChannelCount: uint64(s.ChannelCount), AttachmentCount: uint64(s.AttachmentCount),
		MetadataCount: uint64(s.MetadataCount), ChunkCount: uint64(s.ChunkCount), Start: s.MessageStartTime, End: s.MessageEndTime, PerChannel: map[uint16]uint64{}}
	for _, cc := range s.ChannelMessageCounts {
		if _, dup := v.PerChannel[cc.ChannelID]; dup {
			return v, fmt.Sprintf("channel %d listed twice in channel_message_counts", cc.ChannelID)
		}
		v.PerChannel[cc.ChannelID] = cc.Count
	}
	return v, ""
}

// compareStats returns (field, detail) of the first disagreement.
func compareStats(got statsView, want model.Stats, chunks int, knownChannels map[uint16]bool) (string, string) {
	switch {
	case got.MessageCount != want.MessageCount:
		return "message_count", fmt.Sprintf("%d, true %d", got.MessageCount, want.MessageCount)
	case got.SchemaCount != uint64(want.SchemaCount):
		return "schema_count", fmt.Sprintf("%d, true %d", got.SchemaCount, want.SchemaCount)
	case got.ChannelCount != uint64(want.ChannelCount):
		return "channel_count", fmt.Sprintf("%d, true %d", got.ChannelCount, want.ChannelCount)
	case got.AttachmentCount != uint64(want.AttachmentCount):
		return "attachment_count", fmt.Sprintf("%d, true %d", got.AttachmentCount, want.AttachmentCount)
	case got.MetadataCount != uint64(want.MetadataCount):
		return "metadata_count", fmt.Sprintf("%d, true %d", got.MetadataCount, want.MetadataCount)
	case got.ChunkCount != uint64(chunks):
		return "chunk_count", fmt.Sprintf("%d, file has %d chunk records", got.ChunkCount, chunks)
	case got.Start != want.Start:
		return "message_start_time", fmt.Sprintf("%d, true %d (of %d messages)", got.Start, want.Start, want.MessageCount)
	case got.End != want.End:
		return "message_end_time", fmt.Sprintf("%d, true %d (of %d messages)", got.End, want.End, want.MessageCount)
	}
	var ids []int
	for id := range got.PerChannel {
		ids = append(ids, int(id))
	}
	for id := range want.PerChannel {
		ids = append(ids, int(id))
	}
	sort.Ints(ids)
	for _, id := range ids {
		g, gok := got.PerChannel[uint16(id)]
		w := want.PerChannel[uint16(id)]
		if g != w {
			return "channel_message_counts", fmt.Sprintf("channel %d: %d, true %d", id, g, w)
		}
		if gok && !knownChannels[uint16(id)] {
			return "channel_message_counts", fmt.Sprintf("entry for channel %d which was never written", id)
		}
	}
	return "", ""
}

func (p *c08) Check(sc *runner.Scenario, st *runner.Stats, pin string) *runner.Violation {
	w, problem := build(*sc.Cfg, *sc.WL)
	st.Evaluations++
	st.Add("event.api_calls", int64(len(w.wres.Errs)+1))
	st.Add("event.sink_writes", int64(w.wres.Sink.Calls()))
	st.Event(uint64(len(w.image)), uint64(w.wres.Sink.Calls()))
	if problem != "" {
		return viol(sc, "unexpected_error", "fault-free write failed: %s", problem)
	}
	if w.fileErr != nil {
		return viol(sc, "unexpected_error", "reference decoder cannot frame the file: %v", w.fileErr)
	}
	c := w.content
	want := c.Stats()
	chunks := w.chunkCount()
	known := map[uint16]bool{}
	for _, ch := range c.Channels {
		known[ch.ID] = true
	}
	if len(c.Messages) >= 2 && (!sc.Cfg.Chunked || chunks >= 2) {
		st.DistinctCase(gen.CfgClass(*sc.Cfg) + "|" + gen.Shape(*sc.WL) + "|" + timePattern(*sc.WL))
	}
	if chunks >= 2 {
		st.Inc("probe.multi_chunk")
	}
	for _, r := range w.file.Records {
		if r.Op == refmcap.OpChunk {
			hasMsg := false
			for _, in := range r.V.(*refmcap.Chunk).Inner {
				if in.Op == refmcap.OpMessage {
					hasMsg = true
				}
			}
			if !hasMsg {
				st.Inc("probe.chunk_without_messages")
			}
		}
	}
	if len(c.Messages) > 0 && want.Start == 0 {
		st.Inc("probe.start_time_zero")
	}
	if len(c.Messages) == 0 {
		st.Inc("probe.no_messages")
	}
	for _, o := range sc.WL.Ops {
		if o.Reject {
			st.Inc("probe.rejected_call")
		}
	}
	// (a) Writer.Statistics after Close
	if w.wres.Stats == nil {
		return viol(sc, "writer_stats:missing", "Writer.Statistics is nil after Close")
	}
	if !sc.Cfg.SkipStatistics {
		if f, d := compareStats(viewOfMcap(w.wres.Stats), want, chunks, known); f != "" && pinned(pin, "writer_stats:"+f) {
			return viol(sc, "writer_stats:"+f, "Writer.Statistics.%s = %s", f, d)
		}
	}
	// (b) statistics record in the file
	var statRecs []*refmcap.Record
	for _, r := range w.file.Records {
		if r.Op == refmcap.OpStatistics {
			statRecs = append(statRecs, r)
		}
	}
	if sc.Cfg.SkipStatistics {
		if len(statRecs) != 0 && pinned(pin, "record_stats:present") {
			return viol(sc, "record_stats:present", "SkipStatistics set but the file has %d statistics records", len(statRecs))
		}
	} else {
		st.Inc("probe.statistics_record")
		if len(statRecs) != 1 {
			if pinned(pin, "record_stats:count") {
				return viol(sc, "record_stats:count", "file has %d statistics records, expected 1", len(statRecs))
			}
		} else {
			v, dup := viewOfRef(statRecs[0].V.(*refmcap.Statistics))
			if dup != "" && pinned(pin, "record_stats:channel_message_counts") {
				return viol(sc, "record_stats:channel_message_counts", "%s", dup)
			}
			if f, d := compareStats(v, want, chunks, known); f != "" && pinned(pin, "record_stats:"+f) {
				return viol(sc, "record_stats:"+f, "statistics record %s = %s", f, d)
			}
		}
	}
	// (c) Reader.Info
	if sc.Cfg.SkipMagic {
		return nil
	}
	src := simdisk.NewSeekSource(w.image, *sc.Delivery, nil)
	var info *mcap.Info
	var ierr, oerr error
	var rd *mcap.Reader
	pi := drive.Guard(func() {
		rd, oerr = mcap.NewReader(src)
		if oerr == nil {
			info, ierr = rd.Info()
			rd.Close()
		}
	})
	st.Evaluations++
	st.Add("event.source_reads", int64(src.St.Reads))
	st.Add("event.source_seeks", int64(src.St.Seeks))
	st.Event(src.St.EventHash)
	if pi != nil {
		return viol(sc, "panic", "Info: %s", pi)
	}
	if oerr != nil || ierr != nil {
		return viol(sc, "unexpected_error", "NewReader/Info failed on a fault-free file: %v %v", oerr, ierr)
	}
	// ground truth: the summary as decoded by refmcap
	var sumSchemas, sumChannels []*model.Rec
	var sumChunkIdx []*refmcap.ChunkIndex
	var sumAttIdx []*refmcap.AttachmentIndex
	var sumMdIdx []*refmcap.MetadataIndex
	var sumStats *refmcap.Statistics
	for i := w.file.DataEndIdx + 1; i < len(w.file.Records); i++ {
		switch v := w.file.Records[i].V.(type) {
		case *refmcap.Schema:
			sumSchemas = append(sumSchemas, &model.Rec{Kind: "schema", ID: v.ID, Name: v.Name, Enc: v.Encoding, Data: v.Data})
		case *refmcap.Channel:
			m := map[string]string{}
			for _, kv := range v.Metadata {
				m[kv.K] = kv.V
			}
			sumChannels = append(sumChannels, &model.Rec{Kind: "channel", ID: v.ID, SchemaID: v.SchemaID, Topic: v.Topic, Enc: v.MessageEncoding, Meta: model.SortedMap(m)})
		case *refmcap.ChunkIndex:
			sumChunkIdx = append(sumChunkIdx, v)
		case *refmcap.AttachmentIndex:
			sumAttIdx = append(sumAttIdx, v)
		case *refmcap.MetadataIndex:
			sumMdIdx = append(sumMdIdx, v)
		case *refmcap.Statistics:
			sumStats = v
		}
	}
	if (info.Statistics == nil) != (sumStats == nil) {
		if pinned(pin, "info_stats:presence") {
			return viol(sc, "info_stats:presence", "Info.Statistics present=%v, summary has statistics=%v", info.Statistics != nil, sumStats != nil)
		}
	} else if info.Statistics != nil {
		if f, d := compareStats(viewOfMcap(info.Statistics), want, chunks, known); f != "" && pinned(pin, "info_stats:"+f) {
			return viol(sc, "info_stats:"+f, "Info.Statistics.%s = %s", f, d)
		}
	}
	// listings
	if len(info.Schemas) != len(sumSchemas) && pinned(pin, "info_listing:schemas") {
		return viol(sc, "info_listing:schemas", "Info lists %d schemas, summary has %d", len(info.Schemas), len(sumSchemas))
	}
	for _, s := range sumSchemas {
		if d := model.Diff(s, drive.SchemaRec(info.Schemas[s.ID])); d != "" && pinned(pin, "info_listing:schemas") {
			return viol(sc, "info_listing:schemas", "schema %d: %s", s.ID, d)
		}
	}
	if len(info.Channels) != len(sumChannels) && pinned(pin, "info_listing:channels") {
		return viol(sc, "info_listing:channels", "Info lists %d channels, summary has %d", len(info.Channels), len(sumChannels))
	}
	for _, ch := range sumChannels {
		if d := model.Diff(ch, drive.ChannelRec(info.Channels[ch.ID])); d != "" && pinned(pin, "info_listing:channels") {
			return viol(sc, "info_listing:channels", "channel %d: %s", ch.ID, d)
		}
	}
	if len(info.ChunkIndexes) != len(sumChunkIdx) {
		if pinned(pin, "info_listing:chunks") {
			return viol(sc, "info_listing:chunks", "Info lists %d chunk indexes, summary has %d", len(info.ChunkIndexes), len(sumChunkIdx))
		}
	} else {
		got := append([]*mcap.ChunkIndex{}, info.ChunkIndexes...)
		sort.Slice(got, func(i, j int) bool { return got[i].ChunkStartOffset < got[j].ChunkStartOffset })
		wantCI := append([]*refmcap.ChunkIndex{}, sumChunkIdx...)
		sort.Slice(wantCI, func(i, j int) bool { return wantCI[i].ChunkStartOffset < wantCI[j].ChunkStartOffset })
		for i := range got {
			g, x := got[i], wantCI[i]
			ok := g.ChunkStartOffset == x.ChunkStartOffset && g.ChunkLength == x.ChunkLength && g.MessageStartTime == x.MessageStartTime && g.MessageEndTime == x.MessageEndTime &&
				g.MessageIndexLength == x.MessageIndexLength && string(g.Compression) == x.Compression && g.CompressedSize == x.CompressedSize && g.UncompressedSize == x.UncompressedSize &&
				len(g.MessageIndexOffsets) == len(x.MessageIndexOffsets)
			if ok {
				for _, co := range x.MessageIndexOffsets {
					if g.MessageIndexOffsets[co.ChannelID] != co.Offset {
						ok = false
					}
				}
			}
			if !ok && pinned(pin, "info_listing:chunks") {
				return viol(sc, "info_listing:chunks", "chunk index %d: Info has %+v, summary has %+v", i, *g, *x)
			}
		}
	}
	if len(info.AttachmentIndexes) != len(sumAttIdx) {
		if pinned(pin, "info_listing:attachments") {
			return viol(sc, "info_listing:attachments", "Info lists %d attachment indexes, summary has %d", len(info.AttachmentIndexes), len(sumAttIdx))
		}
	} else {
		for i, x := range sumAttIdx {
			g := info.AttachmentIndexes[i]
			if (g.Offset != x.Offset || g.Length != x.Length || g.LogTime != x.LogTime || g.CreateTime != x.CreateTime || g.DataSize != x.DataSize || g.Name != x.Name || g.MediaType != x.MediaType) && pinned(pin, "info_listing:attachments") {
				return viol(sc, "info_listing:attachments", "attachment index %d: Info has %+v, summary has %+v", i, *g, *x)
			}
		}
	}
	if len(info.MetadataIndexes) != len(sumMdIdx) {
		if pinned(pin, "info_listing:metadata") {
			return viol(sc, "info_listing:metadata", "Info lists %d metadata indexes, summary has %d", len(info.MetadataIndexes), len(sumMdIdx))
		}
	} else {
		for i, x := range sumMdIdx {
			g := info.MetadataIndexes[i]
			if (g.Offset != x.Offset || g.Length != x.Length || g.Name != x.Name) && pinned(pin, "info_listing:metadata") {
				return viol(sc, "info_listing:metadata", "metadata index %d: Info has %+v, summary has %+v", i, *g, *x)
			}
		}
	}
	return nil
}
