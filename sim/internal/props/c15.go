package props

import (
	"errors"
	"fmt"
	"io"
	"strings"

	"pgregory.net/rapid"
	"verif/sim/internal/gen"
	"verif/sim/internal/refmcap"
	"verif/sim/internal/runner"
	"verif/sim/internal/scen"
	"verif/sim/internal/simdisk"
)

type c15 struct{ base }

func init() {
	runner.Register(&c15{base{
		id: "C15", level: "fault_enumeration",
		rule: "seeded search over written files (none/zstd/lz4/unchunked) x reader modes (lexer with chunk CRC validation off/on, scan iterator on a non-seekable source, indexed iterator in 3 orders, Info, and random access to every indexed attachment / metadata record on a seekable source); per file and mode: (a) every benign delivery policy (one byte, halving, hash-sized, data-with-EOF, hash-sized+EOF) must give exactly the full-delivery result including the terminal condition; (b) the read fault is enumerated exhaustively: an unreadable byte at EVERY position p (error delivered together with the preceding bytes, or alone on the next call; sticky or one-shot), a medium that fails at EVERY k-th Read call (for good, or once) and, on seekable sources, an error on EVERY k-th Seek call. oracle: records are a prefix of the fault-free result, no panic, and if p is needed by that reader the read ends with a non-EOF error; when the medium has failed for good (every later Read fails) and the consumer calls three more times, none of those calls reports a clean EOF or panics. distinct by (config class, op-shape class, reader mode, fault kind/mode, FileMap region of p)",
		assumptions: []string{
			"needed-byte sets: sequential readers need every byte; indexed readers need the header, the footer and trailing magic, the summary section and the chunk records selected; a fault outside the needed set is counted as not_fired when the source never returned it",
			"an error is delivered as (n>0, err) sticky, (0, err) on the next call sticky, or (0, err) one-shot; a one-shot (n>0, err) is not injected because io.ReadFull itself discards it; the quick tier picks one of the three per position by a hash of p, the thorough tier runs all three",
		},
		batches: map[string]int{"quick": 64, "thorough": 96},
		checks:  map[string]int{"quick": 3, "thorough": 10},
	}})
}

func (p *c15) Draw(t *rapid.T, tier string) *runner.Scenario {
	lim := smallLimits(tier)
	lim.NoCustom = true
	wl := gen.Workload(t, lim)
	mode := pick(t, "mode", "lexer", "lexer_crc", "lexer_seek", "scan", "indexed0", "indexed1", "indexed2", "info", "random_access")
	if mode[0] == 'i' && mode != "info" {
		lim.ForceChunked = true
		lim.ForceIndexed = true
	}
	cfg := gen.Cfg(t, lim)
	if mode != "lexer" && mode != "lexer_crc" && mode != "lexer_seek" {
		cfg.SkipMagic = false
	}
	if mode[0] == 'i' && mode != "info" && cfg.ChunkSize == 0 {
		cfg.ChunkSize = 80
	}
	return &runner.Scenario{Cfg: &cfg, WL: &wl, Mode: mode}
}

var benignPolicies = []string{"one_byte", "halving", "hash_sizes", "hash_sizes_eof", "data_with_eof"}

func (p *c15) runFault(sc *runner.Scenario, w *world, mode readerMode, full *seqResult, f scen.Fault, st *runner.Stats, pin string) *runner.Violation {
	del := scen.Delivery{Kind: "full"}
	if sc.Delivery != nil {
		del = *sc.Delivery
	}
	st.Doing(&f, string(mode))
	res := runSeq(mode, w.image, *sc.Cfg, del, &f)
	st.Evaluations++
	st.Add("event.source_reads", int64(res.srcStats.Reads))
	st.Add("event.source_seeks", int64(res.srcStats.Seeks))
	st.Event(uint64(f.Off), uint64(f.Call), res.srcStats.EventHash, uint64(len(res.recs)))
	kind := f.Kind + "/" + f.Mode
	if f.Sticky {
		kind += "/sticky"
	}
	mk := func(clause, format string, a ...any) *runner.Violation {
		if !pinned(pin, clause) {
			return nil
		}
		cp := *sc
		cp.Fault = &f
		cp.Delivery = &del
		where := fmt.Sprintf("seek call %d", f.Call)
		if f.Kind == "read_err_call" {
			where = fmt.Sprintf("read call %d of %d", f.Call, full.srcStats.Reads)
		}
		if f.Kind == "read_err" {
			where = fmt.Sprintf("byte %d of %d (%s)", f.Off, len(w.image), regionOf(w.file, f.Off, sc.Cfg.SkipMagic))
		}
		return viol(&cp, clause, "%s at %s, reader %s: %s", kind, where, mode, fmt.Sprintf(format, a...))
	}
	if res.panic != nil {
		return mk("panic", "%s", res.panic)
	}
	if res.err != nil && isBudget(res.err) {
		return mk("no_termination", "read did not end: %v", res.err)
	}
	if ok, d := prefixWithPartial(full.recs, res.recs); !ok {
		return mk("not_prefix", "%s", d)
	}
	if res.srcStats.FaultFired == 0 {
		st.Inc("fault.not_fired." + f.Kind)
		// the reader never touched the faulty byte / never made that seek call:
		// the result must then be the fault-free one
		if res.terminal != full.terminal || len(res.recs) != len(full.recs) {
			return mk("delivery_changes_result", "fault never fired but the read ended with %s after %d records (fault-free: %s after %d)", res.terminal, len(res.recs), full.terminal, len(full.recs))
		}
		return nil
	}
	st.Inc("fault." + kind)
	// the source returned the injected error to the library: the read must end
	// with an error, and not with (a wrapped) EOF
	switch res.terminal {
	case "eof":
		return mk("error_became_eof", "the source returned an I/O error but the read ended with a clean EOF after %d of %d records", len(res.recs), len(full.recs))
	case "error", "open_error", "messages_error":
		if errors.Is(res.err, io.EOF) || errors.Is(res.err, io.ErrUnexpectedEOF) {
			if !errors.Is(res.err, simdisk.ErrInjected) {
				return mk("error_became_eof", "the source returned an I/O error but the read ended with an end-of-file condition: %v", res.err)
			}
		}
	default:
		return mk("error_became_eof", "the source returned an I/O error but the read ended with %s", res.terminal)
	}
	// the source stays broken and the consumer polls again: still no clean end-of-file, no crash
	for i, o := range res.again {
		switch {
		case o == "eof":
			return mk("eof_after_error", "the read failed with %v after %d of %d records, and call %d after that reported a clean EOF although every read of the source fails", res.err, len(res.recs), len(full.recs), i+1)
		case strings.HasPrefix(o, "panic"):
			return mk("panic", "call %d after the read failed with %v: %s", i+1, res.err, o)
		}
	}
	if len(res.again) > 0 {
		st.Inc("probe.polled_again_after_error")
	}
	return nil
}

func (p *c15) Check(sc *runner.Scenario, st *runner.Stats, pin string) *runner.Violation {
	w, problem := build(*sc.Cfg, *sc.WL)
	st.Evaluations++
	st.Event(uint64(len(w.image)))
	if problem != "" {
		return viol(sc, "unexpected_error", "fault-free write failed: %s", problem)
	}
	if w.fileErr != nil {
		return viol(sc, "unexpected_error", "reference decoder cannot frame the file: %v", w.fileErr)
	}
	mode := readerMode(sc.Mode)
	full := runSeq(mode, w.image, *sc.Cfg, scen.Delivery{Kind: "full"}, nil)
	st.Evaluations++
	if full.panic != nil {
		return viol(sc, "panic", "fault-free read, reader %s: %s", mode, full.panic)
	}
	if full.terminal != "eof" {
		if mode[0] == 'i' && mode != "info" && len(w.content.Channels) == 0 {
			return nil // no channel ever written: time-ordered read may report 'no index'
		}
		return viol(sc, "unexpected_error", "fault-free read, reader %s ended with %s: %v", mode, full.terminal, full.err)
	}
	if d := anchorToModel(mode, full, w); d != "" {
		return viol(sc, "delivery_changes_result", "fault-free read, reader %s, against what was written: %s", mode, d)
	}
	if sc.Fault != nil {
		if sc.Fault.Kind == "benign" {
			return p.benign(sc, w, mode, full, sc.Delivery.Kind, sc.Delivery.Seed, st, pin)
		}
		return p.runFault(sc, w, mode, full, *sc.Fault, st, pin)
	}
	thorough := sc.Tier == "thorough"
	// (a) benign delivery policies
	for i, pol := range benignPolicies {
		if v := p.benign(sc, w, mode, full, pol, scen.Mix(uint64(len(w.image)), uint64(i)), st, pin); v != nil {
			return v
		}
	}
	nontrivial := kindsOf(*sc.WL) >= 2 && len(w.content.Messages) >= 1
	// (b) unreadable byte at every position
	// pos == len(image): an I/O error in place of the end of the file
	for pos := int64(0); pos <= int64(len(w.image)); pos++ {
		region := regionOf(w.file, pos, sc.Cfg.SkipMagic)
		// (n>0, err) one-shot is not injected: io.ReadFull itself drops an error that
		// arrives together with enough bytes, so the library could never see it
		all := []scen.Fault{
			{Kind: "read_err", Off: pos, Mode: "with_data", Sticky: true},
			{Kind: "read_err", Off: pos, Mode: "next_call", Sticky: true},
			{Kind: "read_err", Off: pos, Mode: "next_call", Sticky: false},
		}
		variants := all
		if !thorough {
			variants = all[scen.Mix(uint64(pos), uint64(len(w.image)))%3:][:1]
		}
		for _, f := range variants {
			if v := p.runFault(sc, w, mode, full, f, st, pin); v != nil {
				return v
			}
			st.Inc("region." + region + "|" + cfgComp(*sc.Cfg))
			if nontrivial {
				st.DistinctCase(gen.CfgClass(*sc.Cfg) + "|" + gen.Shape(*sc.WL) + "|" + string(mode) + "|" + f.Mode + fmt.Sprint(f.Sticky) + "|" + region)
			}
		}
	}
	// (b') the medium fails at every Read call k, wherever that call reads (the indexed reader
	// reads the summary more than once, so a position cannot express "the second time")
	for k := 0; k < full.srcStats.Reads; k++ {
		all := []scen.Fault{{Kind: "read_err_call", Call: k, Sticky: true}, {Kind: "read_err_call", Call: k, Sticky: false}}
		variants := all
		if !thorough {
			variants = all[scen.Mix(uint64(k), uint64(len(w.image)), 5)%2:][:1]
		}
		for _, f := range variants {
			if v := p.runFault(sc, w, mode, full, f, st, pin); v != nil {
				return v
			}
			if nontrivial {
				st.DistinctCase(gen.CfgClass(*sc.Cfg) + "|" + gen.Shape(*sc.WL) + "|" + string(mode) + "|readcall" + fmt.Sprint(f.Sticky))
			}
		}
	}
	// (c) every seek call
	if mode[0] == 'i' || mode == "random_access" || mode == "lexer_seek" {
		for k := 0; k < full.srcStats.Seeks; k++ {
			for _, sticky := range []bool{true, false} {
				f := scen.Fault{Kind: "seek_err", Call: k, Sticky: sticky}
				if v := p.runFault(sc, w, mode, full, f, st, pin); v != nil {
					return v
				}
				if nontrivial {
					st.DistinctCase(gen.CfgClass(*sc.Cfg) + "|" + gen.Shape(*sc.WL) + "|" + string(mode) + "|seek" + fmt.Sprint(k, sticky))
				}
			}
		}
	}
	_ = refmcap.OpChunk
	return nil
}

func (p *c15) benign(sc *runner.Scenario, w *world, mode readerMode, full *seqResult, policy string, seed uint64, st *runner.Stats, pin string) *runner.Violation {
	del := scen.Delivery{Kind: policy, Seed: seed}
	res := runSeq(mode, w.image, *sc.Cfg, del, nil)
	st.Evaluations++
	st.Inc("fault.benign_delivery." + policy)
	st.Add("event.source_reads", int64(res.srcStats.Reads))
	st.Add("event.short_reads", int64(res.srcStats.ShortReads))
	st.Add("event.eof_with_data", int64(res.srcStats.EOFWithData))
	st.Event(res.srcStats.EventHash, uint64(len(res.recs)))
	mk := func(clause, format string, a ...any) *runner.Violation {
		if !pinned(pin, clause) {
			return nil
		}
		cp := *sc
		cp.Fault = &scen.Fault{Kind: "benign"}
		cp.Delivery = &del
		return viol(&cp, clause, "delivery %s, reader %s: %s", policy, mode, fmt.Sprintf(format, a...))
	}
	if res.panic != nil {
		return mk("panic", "%s", res.panic)
	}
	if res.terminal != full.terminal {
		return mk("delivery_changes_result", "read ended with %s (%v); with full delivery it ends with %s", res.terminal, res.err, full.terminal)
	}
	if ok, d := prefixWithPartial(full.recs, res.recs); !ok || len(res.recs) != len(full.recs) {
		return mk("delivery_changes_result", "%d records vs %d with full delivery; %s", len(res.recs), len(full.recs), d)
	}
	return nil
}
