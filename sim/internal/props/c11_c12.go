package props

import (
	"encoding/json"
	"fmt"
	"strings"

	"pgregory.net/rapid"
	"verif/sim/internal/gen"
	"verif/sim/internal/model"
	"verif/sim/internal/refmcap"
	"verif/sim/internal/runner"
	"verif/sim/internal/scen"
)

type c11 struct{ base }
type c12 struct{ base }

func init() {
	runner.Register(&c11{base{
		id: "C11", level: "exploration",
		rule:        "seeded search over logical contents x reference-encoder layouts, each encoded twice: plain, and decorated with unknown-opcode records (0x10..0xFF, any length incl. 0) at top level, inside chunks and at summary group boundaries (optionally with their own summary offsets) and with trailing bytes on every extensible record incl. the conformance 'pad' variant 01 ff ff; all pointers are recomputed so both files are spec-valid (validated by refmcap). oracle: lexer content, scan and indexed messages in 3 orders (also topic-restricted), Info and random access on the decorated file all equal the model. non-trivial: >=1 message and >=1 decoration; distinct by layout class x op-shape class",
		assumptions: []string{"unknown records are placed only where the spec allows a record: not between a chunk and its message indexes, and in the summary only at group boundaries"},
		batches:     map[string]int{"quick": 48, "thorough": 96},
		checks:      map[string]int{"quick": 80, "thorough": 96},
	}})
	runner.Register(&c12{base{
		id: "C12", level: "exploration",
		rule:        "seeded search over logical contents, each laid out in several ways by the reference encoder: partition of the message stream into chunks (none, one, each, random; message-less and empty chunks), per-chunk compression none/zstd/lz4, schema/channel placement (as written, early at top level, early only, repeated in every chunk), every permutation of summary groups that keeps channels before statistics, subsets of optional groups, summary offsets and CRCs present or zero. oracle: for every layout lexer content, scan, indexed reads in 3 orders (also topic-restricted), Info and random access equal the model, hence each other. non-trivial: >=2 messages; distinct by layout class x op-shape class",
		assumptions: []string{"indexed reads are compared only for layouts that keep chunk indexes and repeated schemas/channels and put every message in a chunk"},
		batches:     map[string]int{"quick": 48, "thorough": 96},
		checks:      map[string]int{"quick": 60, "thorough": 150},
	}})
}

type layExtra struct {
	Layouts []LayoutSpec `json:"layouts"`
}

func layLimits(tier string) gen.Limits {
	l := gen.Limits{MaxOps: 30, MaxPayload: 400, MaxTotal: 6000, NoCustom: true}
	if tier == "thorough" {
		l = gen.Limits{MaxOps: 80, MaxPayload: 5000, MaxTotal: 60000, NoCustom: true}
	}
	return l
}

func (p *c11) Draw(t *rapid.T, tier string) *runner.Scenario {
	wl := gen.Workload(t, layLimits(tier))
	lay := DrawLayout(t, wl, rapid.IntRange(0, 3).Draw(t, "indexed") != 0, true)
	ex, _ := json.Marshal(layExtra{Layouts: []LayoutSpec{lay}})
	del := gen.Delivery(t)
	return &runner.Scenario{WL: &wl, Extra: ex, Delivery: &del}
}

func (p *c12) Draw(t *rapid.T, tier string) *runner.Scenario {
	wl := gen.Workload(t, layLimits(tier))
	n := rapid.IntRange(2, 4).Draw(t, "n_layouts")
	var ls []LayoutSpec
	for i := 0; i < n; i++ {
		ls = append(ls, DrawLayout(t, wl, rapid.IntRange(0, 3).Draw(t, "indexed") != 0, false))
	}
	ex, _ := json.Marshal(layExtra{Layouts: ls})
	del := gen.Delivery(t)
	return &runner.Scenario{WL: &wl, Extra: ex, Delivery: &del}
}

// fileIndexed reports whether an encoded file carries what index-based reading
// needs: chunk indexes, every message inside a chunk, and the repeated channel
// (and schema) records in the summary.
func fileIndexed(img []byte) bool {
	f, err := refmcap.Decode(img, refmcap.DecodeOptions{})
	if err != nil {
		return false
	}
	var nCI, nCh, nSc, nChunks int
	needSchema := false
	for i, r := range f.Records {
		inSummary := i > f.DataEndIdx
		switch v := r.V.(type) {
		case *refmcap.Message:
			return false // a message outside any chunk
		case *refmcap.Chunk:
			nChunks++
		case *refmcap.ChunkIndex:
			nCI++
		case *refmcap.Channel:
			if inSummary {
				nCh++
				if v.SchemaID != 0 {
					needSchema = true
				}
			}
		case *refmcap.Schema:
			if inSummary {
				nSc++
			}
		}
	}
	return nChunks > 0 && nCI == nChunks && nCh > 0 && (!needSchema || nSc > 0)
}

func encodeChecked(wl scen.Workload, lay LayoutSpec) ([]byte, string) {
	img, err := refmcap.Encode(BuildSpec(wl, lay))
	if err != nil {
		return nil, "encode: " + err.Error()
	}
	f, err := refmcap.Decode(img, refmcap.DecodeOptions{})
	if err != nil {
		return nil, "the reference decoder rejects the reference encoder's output: " + err.Error()
	}
	for _, is := range refmcap.Validate(f) {
		// the validator is strict about chunk content for writer output (C05);
		// unknown-opcode records inside chunks are what C11 inserts on purpose
		if (is.Clause == "grammar:chunk_content" || is.Clause == "grammar:summary_content") && strings.Contains(is.Detail, "Unknown(") {
			continue
		}
		// anything else the validator reports here is a harness bug
		return nil, "the reference validator rejects the layout: " + is.Clause + ": " + is.Detail
	}
	return img, ""
}

func (p *c11) Check(sc *runner.Scenario, st *runner.Stats, pin string) *runner.Violation {
	var ex layExtra
	if err := json.Unmarshal(sc.Extra, &ex); err != nil || len(ex.Layouts) != 1 {
		return viol(sc, "harness", "bad extra")
	}
	lay := ex.Layouts[0]
	c := model.FromWorkload(*sc.WL)
	img, herr := encodeChecked(*sc.WL, lay)
	if herr != "" {
		return viol(sc, "harness", "%s", herr)
	}
	plain := lay
	plain.Pad, plain.Unknown = nil, nil
	pimg, herr := encodeChecked(*sc.WL, plain)
	if herr != "" {
		return viol(sc, "harness", "plain: %s", herr)
	}
	st.Event(uint64(len(img)), uint64(len(pimg)))
	for _, u := range lay.Unknown {
		st.Inc("probe.unknown_" + u.Where)
		if u.Len == 0 {
			st.Inc("probe.unknown_zero_length")
		}
	}
	if len(lay.Pad) > 0 {
		st.Inc("probe.padded")
	}
	if len(c.Messages) >= 1 && (len(lay.Unknown) > 0 || len(lay.Pad) > 0) {
		st.DistinctCase(lay.class() + "|" + gen.Shape(*sc.WL))
	}
	// the plain file must read as the model (otherwise the defect is not about decorations)
	if rdr, kind, d := checkReaders(pimg, c, fileIndexed(pimg), *sc.Delivery, st, &st.Evaluations); rdr != "" {
		if pinned(pin, "plain_file:"+rdr) {
			return viol(sc, "plain_file:"+rdr, "the undecorated layout already reads wrong (%s): %s", kind, d)
		}
		return nil
	}
	if rdr, kind, d := checkReaders(img, c, fileIndexed(img), *sc.Delivery, st, &st.Evaluations); rdr != "" {
		clause := "messages_changed"
		switch {
		case kind == "error" || kind == "panic":
			clause = "error_on_decorated"
		case rdr == "lexer":
			clause = "token_stream_changed"
		case rdr == "info":
			clause = "info_changed"
		case rdr == "random_access":
			clause = "random_access_changed"
		}
		if pinned(pin, clause) {
			return viol(sc, clause, "reader %s on the decorated file (%s): %s", rdr, kind, d)
		}
	}
	return nil
}

func (p *c12) Check(sc *runner.Scenario, st *runner.Stats, pin string) *runner.Violation {
	var ex layExtra
	if err := json.Unmarshal(sc.Extra, &ex); err != nil || len(ex.Layouts) == 0 {
		return viol(sc, "harness", "bad extra")
	}
	c := model.FromWorkload(*sc.WL)
	for i, lay := range ex.Layouts {
		img, herr := encodeChecked(*sc.WL, lay)
		if herr != "" {
			return viol(sc, "harness", "layout %d: %s", i, herr)
		}
		st.Event(uint64(len(img)))
		if len(c.Messages) >= 2 {
			st.DistinctCase(lay.class() + "|" + gen.Shape(*sc.WL))
		}
		if fileIndexed(img) {
			st.Inc("probe.indexed_layout")
		}
		if len(lay.EmptyBefore) > 0 {
			st.Inc("probe.empty_chunk")
		}
		st.Inc("probe.defs_" + lay.DefsMode)
		if rdr, kind, d := checkReaders(img, c, fileIndexed(img), *sc.Delivery, st, &st.Evaluations); rdr != "" {
			clause := "layout_changes_result:" + rdr
			if kind == "error" || kind == "panic" {
				clause = "error_on_layout:" + rdr
			}
			if kind == "harness" {
				clause = "harness"
			}
			if pinned(pin, clause) {
				return viol(sc, clause, "layout %d (%s): %s", i, fmt.Sprint(lay.class()), d)
			}
		}
	}
	return nil
}
