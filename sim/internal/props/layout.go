package props

import (
	"fmt"
	"io"
	"sort"
	"strings"

	"github.com/foxglove/mcap/go/mcap"
	"pgregory.net/rapid"
	"verif/sim/internal/drive"
	"verif/sim/internal/model"
	"verif/sim/internal/refmcap"
	"verif/sim/internal/scen"
	"verif/sim/internal/simdisk"
)

// LayoutSpec is a pure-data description of how the reference encoder lays
// out a logical content (a workload's ops).
type LayoutSpec struct {
	Segs         []LaySeg `json:"segs"`                // consecutive groups of data-stream ops (schema/channel/message)
	DefsMode     string   `json:"defs_mode,omitempty"` // "asis", "early", "early_only", "repeat"
	EmptyBefore  []int    `json:"empty_before,omitempty"`
	SummaryOrder []byte   `json:"summary_order"`
	Offsets      bool     `json:"offsets,omitempty"`
	DataCRC      bool     `json:"data_crc,omitempty"`
	SummaryCRC   bool     `json:"summary_crc,omitempty"`
	Pad          []byte   `json:"pad,omitempty"`
	Unknown      []LayUnk `json:"unknown,omitempty"`
	UnkOffsets   bool     `json:"unk_offsets,omitempty"`
}

type LaySeg struct {
	N       int    `json:"n"`
	Chunked bool   `json:"chunked,omitempty"`
	Comp    string `json:"comp,omitempty"`
	CRC     bool   `json:"crc,omitempty"`
	MI      bool   `json:"mi,omitempty"`
}

// LayUnk inserts an unknown-opcode record.
type LayUnk struct {
	Where string `json:"where"` // "top", "chunk", "summary"
	At    int    `json:"at"`    // top/chunk: before the data-stream op with this index (clamped); summary: before group index
	Op    byte   `json:"op"`
	Len   int    `json:"len"`
}

func refSchema(o scen.Op) *refmcap.Schema {
	return &refmcap.Schema{ID: o.ID, Name: string(o.Name), Encoding: string(o.Encoding), Data: o.Data.Bytes()}
}

func refKV(kvs []scen.KV) []refmcap.KV {
	m := model.SortedMeta(kvs)
	out := make([]refmcap.KV, len(m))
	for i, kv := range m {
		out[i] = refmcap.KV{K: kv.K, V: kv.V}
	}
	return out
}

func refChannel(o scen.Op) *refmcap.Channel {
	return &refmcap.Channel{ID: o.ID, SchemaID: o.SchemaID, Topic: string(o.Topic), MessageEncoding: string(o.Encoding), Metadata: refKV(o.Meta)}
}

func unkBody(op byte, n int) []byte {
	b := make([]byte, n)
	for i := range b {
		b[i] = byte(scen.Mix(uint64(op), uint64(i)))
	}
	return b
}

// BuildSpec turns (workload, layout) into an encoder FileSpec.
func BuildSpec(wl scen.Workload, lay LayoutSpec) *refmcap.FileSpec {
	fs := &refmcap.FileSpec{Profile: string(wl.Profile), Library: string(wl.Library), HeaderPad: lay.Pad, DataCRC: lay.DataCRC, SummaryCRC: lay.SummaryCRC}
	schemaOps := map[uint16]scen.Op{}
	channelOps := map[uint16]scen.Op{}
	var defOrder []scen.Op
	for _, o := range wl.Ops {
		switch o.Kind {
		case scen.OpSchema:
			if _, ok := schemaOps[o.ID]; !ok {
				schemaOps[o.ID] = o
				defOrder = append(defOrder, o)
			}
		case scen.OpChannel:
			if _, ok := channelOps[o.ID]; !ok {
				channelOps[o.ID] = o
				defOrder = append(defOrder, o)
			}
		}
	}
	defItem := func(o scen.Op) refmcap.Item {
		if o.Kind == scen.OpSchema {
			return refmcap.Item{Op: refmcap.OpSchema, Schema: refSchema(o), Pad: lay.Pad}
		}
		return refmcap.Item{Op: refmcap.OpChannel, Channel: refChannel(o), Pad: lay.Pad}
	}
	if lay.DefsMode == "early" || lay.DefsMode == "early_only" {
		for _, o := range defOrder {
			fs.Items = append(fs.Items, defItem(o))
		}
	}
	unkTop := map[int][]LayUnk{}
	unkChunk := map[int][]LayUnk{}
	unkChunkEnd := map[int][]LayUnk{} // keyed by segment index: appended as the last records of that segment's chunk
	for _, u := range lay.Unknown {
		switch u.Where {
		case "top":
			unkTop[u.At] = append(unkTop[u.At], u)
		case "chunk":
			unkChunk[u.At] = append(unkChunk[u.At], u)
		case "chunk_end":
			unkChunkEnd[u.At] = append(unkChunkEnd[u.At], u)
		}
	}
	emptyBefore := map[int]bool{}
	for _, e := range lay.EmptyBefore {
		emptyBefore[e] = true
	}
	var cur *refmcap.ChunkSpec
	segIdx, inSeg := 0, 0
	flush := func() {
		if cur != nil {
			for _, u := range unkChunkEnd[segIdx] {
				cur.Items = append(cur.Items, refmcap.Item{Op: u.Op, Raw: unkBody(u.Op, u.Len)})
			}
			fs.Items = append(fs.Items, refmcap.Item{Op: refmcap.OpChunk, Chunk: cur})
			cur = nil
		}
	}
	seg := func() LaySeg {
		if segIdx < len(lay.Segs) {
			return lay.Segs[segIdx]
		}
		return LaySeg{N: 1 << 30}
	}
	dataIdx := 0
	startSeg := func() {
		if emptyBefore[segIdx] {
			flush()
			fs.Items = append(fs.Items, refmcap.Item{Op: refmcap.OpChunk, Chunk: &refmcap.ChunkSpec{CRC: true, MessageIndex: true}})
		}
	}
	startSeg()
	defined := map[string]bool{} // defs present in the current chunk (for "repeat")
	for _, o := range wl.Ops {
		switch o.Kind {
		case scen.OpAttachment:
			flush()
			fs.Items = append(fs.Items, refmcap.Item{Op: refmcap.OpAttachment, Attachment: &refmcap.Attachment{LogTime: o.LogTime, CreateTime: o.PublishTime, Name: string(o.Name), MediaType: string(o.Encoding), Data: o.Data.Bytes()}, Pad: lay.Pad})
			continue
		case scen.OpMetadata:
			flush()
			fs.Items = append(fs.Items, refmcap.Item{Op: refmcap.OpMetadata, Metadata: &refmcap.Metadata{Name: string(o.Name), Metadata: refKV(o.Meta)}, Pad: lay.Pad})
			continue
		}
		// data-stream op
		for inSeg >= seg().N {
			flush()
			segIdx++
			inSeg = 0
			startSeg()
		}
		s := seg()
		for _, u := range unkTop[dataIdx] {
			flush()
			fs.Items = append(fs.Items, refmcap.Item{Op: u.Op, Raw: unkBody(u.Op, u.Len)})
		}
		var it refmcap.Item
		skip := false
		switch o.Kind {
		case scen.OpSchema, scen.OpChannel:
			it = defItem(o)
			if lay.DefsMode == "early_only" {
				skip = true
			}
		case scen.OpMessage:
			it = refmcap.Item{Op: refmcap.OpMessage, Message: &refmcap.Message{ChannelID: o.ChannelID, Sequence: o.Sequence, LogTime: o.LogTime, PublishTime: o.PublishTime, Data: o.Data.Bytes()}}
		}
		if !skip {
			if s.Chunked {
				if cur == nil {
					cur = &refmcap.ChunkSpec{Compression: s.Comp, CRC: s.CRC, MessageIndex: s.MI, MIPad: lay.Pad}
					defined = map[string]bool{}
				}
				for _, u := range unkChunk[dataIdx] {
					cur.Items = append(cur.Items, refmcap.Item{Op: u.Op, Raw: unkBody(u.Op, u.Len)})
				}
				if lay.DefsMode == "repeat" && o.Kind == scen.OpMessage {
					ch := channelOps[o.ChannelID]
					if ch.SchemaID != 0 && !defined[fmt.Sprint("s", ch.SchemaID)] {
						defined[fmt.Sprint("s", ch.SchemaID)] = true
						cur.Items = append(cur.Items, defItem(schemaOps[ch.SchemaID]))
					}
					if !defined[fmt.Sprint("c", ch.ID)] {
						defined[fmt.Sprint("c", ch.ID)] = true
						cur.Items = append(cur.Items, defItem(ch))
					}
				}
				cur.Items = append(cur.Items, it)
			} else {
				flush()
				fs.Items = append(fs.Items, it)
			}
		}
		inSeg++
		dataIdx++
	}
	flush()
	for _, u := range unkTop[1<<30] {
		fs.Items = append(fs.Items, refmcap.Item{Op: u.Op, Raw: unkBody(u.Op, u.Len)})
	}
	// summary
	sum := refmcap.SummarySpec{Offsets: lay.Offsets, Pad: lay.Pad, UnknownOffsets: lay.UnkOffsets, Unknown: map[byte][][]byte{}}
	byGroup := map[int][]LayUnk{}
	for _, u := range lay.Unknown {
		if u.Where == "summary" {
			byGroup[u.At] = append(byGroup[u.At], u)
		}
	}
	usedUnk := map[byte]bool{}
	addUnk := func(i int) {
		for _, u := range byGroup[i] {
			if usedUnk[u.Op] {
				continue // one group per opcode keeps the summary grouped by opcode
			}
			usedUnk[u.Op] = true
			sum.Order = append(sum.Order, u.Op)
			sum.Unknown[u.Op] = append(sum.Unknown[u.Op], unkBody(u.Op, u.Len))
		}
	}
	for i, op := range lay.SummaryOrder {
		addUnk(i)
		sum.Order = append(sum.Order, op)
	}
	addUnk(len(lay.SummaryOrder))
	fs.Summary = sum
	return fs
}

// DrawLayout draws a legal layout for a workload.
func DrawLayout(t *rapid.T, wl scen.Workload, keepIndexed bool, decorate bool) LayoutSpec {
	nData := 0
	for _, o := range wl.Ops {
		if o.Kind == scen.OpSchema || o.Kind == scen.OpChannel || o.Kind == scen.OpMessage {
			nData++
		}
	}
	lay := LayoutSpec{DefsMode: pick(t, "defs_mode", "asis", "asis", "early", "early_only", "repeat"),
		DataCRC: rapid.Bool().Draw(t, "data_crc"), SummaryCRC: rapid.Bool().Draw(t, "summary_crc"), Offsets: rapid.Bool().Draw(t, "offsets")}
	mode := pick(t, "chunking", "one", "none", "each", "random", "random", "random")
	if keepIndexed && mode == "none" {
		mode = "random"
	}
	remaining := nData
	for remaining > 0 {
		var n int
		switch mode {
		case "one", "none":
			n = remaining
		case "each":
			n = 1
		default:
			n = rapid.IntRange(1, max(1, min(remaining, 8))).Draw(t, "seg_n")
		}
		s := LaySeg{N: n, Chunked: mode != "none", CRC: rapid.Bool().Draw(t, "seg_crc"), MI: rapid.Bool().Draw(t, "seg_mi")}
		if mode == "random" && !keepIndexed && rapid.IntRange(0, 4).Draw(t, "seg_unchunked") == 0 {
			s.Chunked = false
		}
		if s.Chunked {
			s.Comp = pick(t, "seg_comp", "", "", "lz4", "zstd")
		}
		lay.Segs = append(lay.Segs, s)
		remaining -= n
	}
	if rapid.IntRange(0, 3).Draw(t, "empty_chunks") == 0 && len(lay.Segs) > 0 {
		lay.EmptyBefore = append(lay.EmptyBefore, rapid.IntRange(0, len(lay.Segs)-1).Draw(t, "empty_at"))
	}
	// summary groups: any permutation; the spec's only ordering MUST (channels
	// before statistics with per-channel counts) is respected by construction
	groups := []byte{refmcap.OpSchema, refmcap.OpChannel, refmcap.OpStatistics, refmcap.OpChunkIndex, refmcap.OpAttachmentIndex, refmcap.OpMetadataIndex}
	perm := rapid.Permutation(groups).Draw(t, "summary_perm")
	for _, g := range perm {
		keep := true
		switch g {
		case refmcap.OpSchema, refmcap.OpChannel, refmcap.OpChunkIndex:
			keep = keepIndexed || rapid.IntRange(0, 3).Draw(t, "keep_group") != 0
		default:
			keep = rapid.IntRange(0, 3).Draw(t, "keep_opt_group") != 0
		}
		if keep {
			lay.SummaryOrder = append(lay.SummaryOrder, g)
		}
	}
	// channels before statistics
	ci, si := -1, -1
	for i, g := range lay.SummaryOrder {
		if g == refmcap.OpChannel {
			ci = i
		}
		if g == refmcap.OpStatistics {
			si = i
		}
	}
	if ci >= 0 && si >= 0 && si < ci {
		lay.SummaryOrder[ci], lay.SummaryOrder[si] = lay.SummaryOrder[si], lay.SummaryOrder[ci]
	}
	if decorate {
		if rapid.Bool().Draw(t, "pad") {
			lay.Pad = pick(t, "pad_bytes", []byte{0x01, 0xff, 0xff}, []byte{0}, []byte{1, 2, 3, 4, 5, 6, 7, 8, 9, 10, 11, 12, 13}, []byte{0xff, 0xff, 0xff, 0xff},
				[]byte{0, 0, 0, 0, 0, 0, 0, 0, 0, 0, 0, 0, 0, 0, 0, 0, 0, 0, 0, 0}, []byte{9, 9, 9, 9, 9, 9, 9, 9, 1, 0, 0, 0, 0, 0, 0, 0, 7, 0, 0, 0, 0, 0, 0, 0, 3, 0, 0, 0, 0, 0, 0, 0, 1, 1})
		}
		nUnk := rapid.IntRange(0, 5).Draw(t, "n_unknown")
		if len(lay.Pad) == 0 && nUnk == 0 {
			nUnk = 1
		}
		for i := 0; i < nUnk; i++ {
			u := LayUnk{Where: pick(t, "unk_where", "top", "chunk", "chunk_end", "summary"), Op: byte(rapid.IntRange(0x10, 0xff).Draw(t, "unk_op")),
				Len: pick(t, "unk_len", 0, 0, 1, 9, 40, 300)}
			switch u.Where {
			case "summary":
				u.At = rapid.IntRange(0, len(lay.SummaryOrder)).Draw(t, "unk_group")
			case "chunk_end":
				u.At = rapid.IntRange(0, max(0, len(lay.Segs)-1)).Draw(t, "unk_seg")
			default:
				u.At = rapid.IntRange(0, max(0, nData-1)).Draw(t, "unk_at")
				if u.Where == "top" && rapid.IntRange(0, 5).Draw(t, "unk_end") == 0 {
					u.At = 1 << 30
				}
			}
			lay.Unknown = append(lay.Unknown, u)
		}
		lay.UnkOffsets = rapid.Bool().Draw(t, "unk_offsets")
	}
	return lay
}

func (l LayoutSpec) indexed() bool {
	have := map[byte]bool{}
	for _, g := range l.SummaryOrder {
		have[g] = true
	}
	anyChunk := false
	for _, s := range l.Segs {
		if s.Chunked {
			anyChunk = true
		} else {
			// unchunked messages are invisible to an index-based read
			return false
		}
	}
	return anyChunk && have[refmcap.OpSchema] && have[refmcap.OpChannel] && have[refmcap.OpChunkIndex]
}

func (l LayoutSpec) class() string {
	comps := map[string]bool{}
	chunked, un := 0, 0
	for _, s := range l.Segs {
		if s.Chunked {
			chunked++
			c := s.Comp
			if c == "" {
				c = "none"
			}
			comps[c] = true
		} else {
			un++
		}
	}
	var cs []string
	for c := range comps {
		cs = append(cs, c)
	}
	sort.Strings(cs)
	where := map[string]bool{}
	for _, u := range l.Unknown {
		where[u.Where] = true
	}
	var ws []string
	for w := range where {
		ws = append(ws, w)
	}
	sort.Strings(ws)
	return fmt.Sprintf("%s|ch%d un%d|%s|sum%x|off%v|pad%d|unk%s|e%d", l.DefsMode, bucket(chunked), bucket(un), strings.Join(cs, "+"), l.SummaryOrder, l.Offsets, len(l.Pad), strings.Join(ws, "+"), len(l.EmptyBefore))
}

// readersReport is everything the Go readers report for an image, in model terms.
type readersReport struct {
	clause string // non-empty: a reader failed outright
	detail string
}

// checkReaders reads img through every Go reader and compares with the
// content. which selects reader families: lexer, scan, indexed, info.
func checkReaders(img []byte, c *model.Content, indexed bool, del scen.Delivery, st interface {
	Inc(string)
	Add(string, int64)
}, evals *int64) (string, string, string) {
	// ---- lexer ---------------------------------------------------------------
	lr := drive.LexAll(simdisk.NewSource(img, del, nil), drive.LexSpec{Validate: true, AttachCB: true, ComputeCRC: true})
	*evals++
	if lr.Panic != nil {
		return "lexer", "panic", lr.Panic.String()
	}
	if !lr.CleanEOF() {
		return "lexer", "error", fmt.Sprintf("lexer ended with %s: %v %v", lr.Terminal(), lr.NewErr, lr.Err)
	}
	dataSec := untilKind(lr.Recs, "data_end")
	if d := model.DiffSeq(stripBindings(c.Messages), project(dataSec, "message")); d != "" {
		return "lexer", "content", "messages: " + d
	}
	defs := map[string]*model.Rec{}
	for _, s := range c.Schemas {
		defs[fmt.Sprint("schema", s.ID)] = s
	}
	for _, ch := range c.Channels {
		defs[fmt.Sprint("channel", ch.ID)] = ch
	}
	seenDef := map[string]bool{}
	for _, r := range project(lr.Recs, "schema", "channel") {
		k := fmt.Sprint(r.Kind, r.ID)
		w, ok := defs[k]
		if !ok {
			return "lexer", "content", fmt.Sprintf("%s id %d was never written", r.Kind, r.ID)
		}
		if d := model.Diff(w, r); d != "" {
			return "lexer", "content", fmt.Sprintf("%s id %d: %s", r.Kind, r.ID, d)
		}
		seenDef[k] = true
	}
	for k := range defs {
		if !seenDef[k] {
			return "lexer", "content", fmt.Sprintf("definition %s never returned by the lexer", k)
		}
	}
	var wantAtt []*model.Rec
	for _, a := range c.Attachments {
		cp := *a
		cp.CRC, cp.HasCRC = attachmentCRC(a), true
		wantAtt = append(wantAtt, &cp)
	}
	var gotAtt []*model.Rec
	for _, r := range lr.Recs {
		if strings.HasPrefix(r.Kind, "attachment") && r.Kind != "attachment_index" {
			gotAtt = append(gotAtt, r)
		}
	}
	if d := model.DiffSeq(wantAtt, gotAtt); d != "" {
		return "lexer", "content", "attachments: " + d
	}
	if d := model.DiffSeq(c.Metadata, project(lr.Recs, "metadata")); d != "" {
		return "lexer", "content", "metadata: " + d
	}
	hdr := project(lr.Recs, "header")
	if len(hdr) != 1 || hdr[0].Name != c.Profile || hdr[0].Enc != c.Library {
		return "lexer", "content", "header differs"
	}
	// message index records as the library parses them vs the reference decoder
	if rf, err := refmcap.Decode(img, refmcap.DecodeOptions{}); err == nil {
		var want []string
		for _, r := range rf.Records {
			if mi, ok := r.V.(*refmcap.MessageIndex); ok {
				var sb strings.Builder
				fmt.Fprintf(&sb, "%d:", mi.ChannelID)
				for _, en := range mi.Entries {
					fmt.Fprintf(&sb, "%d@%d,", en.LogTime, en.Offset)
				}
				want = append(want, sb.String())
			}
		}
		var got []string
		for _, r := range project(lr.Recs, "message_index") {
			got = append(got, fmt.Sprintf("%d:%s", r.ChannelID, r.Name))
		}
		if len(got) != len(want) {
			return "lexer", "content", fmt.Sprintf("%d message index tokens, file has %d message index records", len(got), len(want))
		}
		for i := range want {
			if got[i] != want[i] {
				return "lexer", "content", fmt.Sprintf("message index %d parses as %s, file says %s", i, got[i], want[i])
			}
		}
	}
	// ---- scan ----------------------------------------------------------------
	scan := drive.ReadMessages(simdisk.NewSource(img, del, nil), drive.ReadSpec{UseIndex: false, MetaCB: true})
	*evals++
	if scan.Panic != nil {
		return "scan", "panic", scan.Panic.String()
	}
	if scan.Terminal() != "eof" {
		return "scan", "error", fmt.Sprintf("scan ended with %s: %v", scan.Terminal(), scan.FirstErr())
	}
	if d := model.DiffSeq(c.Messages, scan.Msgs); d != "" {
		return "scan", "content", d
	}
	if d := model.DiffSeq(c.Metadata, scan.Metadata); d != "" {
		return "scan", "content", "metadata callback: " + d
	}
	// ---- default options (index on, file order): index or fall back, never fewer ------
	mixed := false
	if rf, err := refmcap.Decode(img, refmcap.DecodeOptions{}); err == nil {
		chunksSeen, topMsgs := 0, 0
		for _, r := range rf.Records {
			switch r.Op {
			case refmcap.OpChunk:
				chunksSeen++
			case refmcap.OpMessage:
				topMsgs++
			}
		}
		// chunk records together with messages outside any chunk: legal, but not a
		// partition of the messages into chunks - an index cannot see the latter
		mixed = chunksSeen > 0 && topMsgs > 0
	}
	if mixed {
		st.Inc("probe.mixed_chunked_and_unchunked_skipped_default_read")
	} else {
		dr := drive.ReadMessages(simdisk.NewSeekSource(img, del, nil), drive.ReadSpec{UseIndex: true, OmitUsingIndex: true})
		*evals++
		if dr.Panic != nil {
			return "default_read", "panic", dr.Panic.String()
		}
		switch dr.Terminal() {
		case "eof":
			if d := model.DiffSeq(c.Messages, dr.Msgs); d != "" {
				return "default_read", "content", "Messages() with default options: " + d
			}
		default:
			if indexed {
				return "default_read", "error", fmt.Sprintf("Messages() with default options ended with %s: %v", dr.Terminal(), dr.FirstErr())
			}
			st.Inc("probe.default_read_error_on_unindexed_file")
		}
	}
	// ---- indexed ---------------------------------------------------------------
	if indexed {
		st.Inc("probe.indexed_reads")
		for order := 0; order <= 2; order++ {
			ir := drive.ReadMessages(simdisk.NewSeekSource(img, del, nil), drive.ReadSpec{UseIndex: true, Order: order})
			*evals++
			name := fmt.Sprintf("indexed%d", order)
			if ir.Panic != nil {
				return name, "panic", ir.Panic.String()
			}
			if ir.Terminal() != "eof" {
				return name, "error", fmt.Sprintf("ended with %s: %v", ir.Terminal(), ir.FirstErr())
			}
			var d string
			if order == 0 {
				d = model.DiffSeq(c.Messages, ir.Msgs)
			} else {
				d = sameMultiset(c.Messages, ir.Msgs)
				if d == "" {
					d = monotone(ir.Msgs, order)
				}
			}
			if d != "" {
				return name, "content", d
			}
			// the same read restricted to one topic (chunk pruning by channel)
			if len(c.Messages) > 0 {
				topic := c.Messages[len(c.Messages)/2].BoundChannel.Topic
				want := c.Select([]string{topic}, 0, 0, true)
				tr := drive.ReadMessages(simdisk.NewSeekSource(img, del, nil), drive.ReadSpec{UseIndex: true, Order: order, Topics: []string{topic}})
				*evals++
				if tr.Panic != nil {
					return name + "_topic", "panic", tr.Panic.String()
				}
				if tr.Terminal() != "eof" {
					return name + "_topic", "error", fmt.Sprintf("ended with %s: %v", tr.Terminal(), tr.FirstErr())
				}
				if order == 0 {
					d = model.DiffSeq(want, tr.Msgs)
				} else {
					d = sameMultiset(want, tr.Msgs)
					if d == "" {
						d = monotone(tr.Msgs, order)
					}
				}
				if d != "" {
					return name + "_topic", "content", fmt.Sprintf("topic %q: %s", topic, d)
				}
			}
		}
	}
	// ---- Info and random access --------------------------------------------------
	src := simdisk.NewSeekSource(img, del, nil)
	var rd *mcap.Reader
	var info *mcap.Info
	var oerr, ierr error
	pi := drive.Guard(func() {
		rd, oerr = mcap.NewReader(src)
		if oerr == nil {
			info, ierr = rd.Info()
		}
	})
	*evals++
	if pi != nil {
		return "info", "panic", pi.String()
	}
	if oerr != nil || ierr != nil {
		return "info", "error", fmt.Sprintf("NewReader/Info: %v %v", oerr, ierr)
	}
	defer rd.Close()
	ref, err := refmcap.Decode(img, refmcap.DecodeOptions{})
	if err != nil {
		return "info", "harness", "reference decode of the encoder's own output failed: " + err.Error()
	}
	var nSchemas, nChannels, nChunkIdx, nAttIdx, nMdIdx int
	var refStats *refmcap.Statistics
	for i := ref.DataEndIdx + 1; i < len(ref.Records); i++ {
		switch v := ref.Records[i].V.(type) {
		case *refmcap.Schema:
			nSchemas++
			if d := model.Diff(defs[fmt.Sprint("schema", v.ID)], drive.SchemaRec(info.Schemas[v.ID])); d != "" {
				return "info", "content", fmt.Sprintf("Info schema %d: %s", v.ID, d)
			}
		case *refmcap.Channel:
			nChannels++
			if d := model.Diff(defs[fmt.Sprint("channel", v.ID)], drive.ChannelRec(info.Channels[v.ID])); d != "" {
				return "info", "content", fmt.Sprintf("Info channel %d: %s", v.ID, d)
			}
		case *refmcap.ChunkIndex:
			nChunkIdx++
		case *refmcap.AttachmentIndex:
			nAttIdx++
		case *refmcap.MetadataIndex:
			nMdIdx++
		case *refmcap.Statistics:
			refStats = v
		}
	}
	if len(info.Schemas) != nSchemas || len(info.Channels) != nChannels || len(info.ChunkIndexes) != nChunkIdx || len(info.AttachmentIndexes) != nAttIdx || len(info.MetadataIndexes) != nMdIdx {
		return "info", "content", fmt.Sprintf("Info lists schemas/channels/chunks/attachments/metadata = %d/%d/%d/%d/%d, the summary has %d/%d/%d/%d/%d",
			len(info.Schemas), len(info.Channels), len(info.ChunkIndexes), len(info.AttachmentIndexes), len(info.MetadataIndexes), nSchemas, nChannels, nChunkIdx, nAttIdx, nMdIdx)
	}
	if (info.Statistics != nil) != (refStats != nil) {
		return "info", "content", "Info.Statistics presence differs from the summary"
	}
	if info.Statistics != nil {
		want := c.Stats()
		known := map[uint16]bool{}
		for _, ch := range c.Channels {
			known[ch.ID] = true
		}
		if f, d := compareStats(viewOfMcap(info.Statistics), want, int(refStats.ChunkCount), known); f != "" {
			return "info", "content", fmt.Sprintf("Info.Statistics.%s = %s", f, d)
		}
	}
	for i, ai := range info.AttachmentIndexes {
		if i >= len(c.Attachments) {
			break
		}
		var got *model.Rec
		var err error
		pi := drive.Guard(func() {
			var ar *mcap.AttachmentReader
			if ar, err = rd.GetAttachmentReader(ai.Offset); err != nil {
				return
			}
			got = &model.Rec{Kind: "attachment", LogTime: ar.LogTime, PubTime: ar.CreateTime, Name: ar.Name, Enc: ar.MediaType}
			got.Data, err = io.ReadAll(ar.Data())
		})
		if pi != nil {
			return "random_access", "panic", pi.String()
		}
		if err != nil {
			return "random_access", "error", fmt.Sprintf("attachment %d: %v", i, err)
		}
		w := *c.Attachments[i]
		w.HasSize = false
		if d := model.Diff(&w, got); d != "" {
			return "random_access", "content", fmt.Sprintf("attachment %d: %s", i, d)
		}
	}
	for i, mi := range info.MetadataIndexes {
		if i >= len(c.Metadata) {
			break
		}
		var md *mcap.Metadata
		var err error
		pi := drive.Guard(func() { md, err = rd.GetMetadata(mi.Offset) })
		if pi != nil {
			return "random_access", "panic", pi.String()
		}
		if err != nil {
			return "random_access", "error", fmt.Sprintf("metadata %d: %v", i, err)
		}
		if d := model.Diff(c.Metadata[i], drive.MetadataRec(md)); d != "" {
			return "random_access", "content", fmt.Sprintf("metadata %d: %s", i, d)
		}
	}
	return "", "", ""
}
