//go:build verif

package props

import (
	"encoding/binary"
	"encoding/json"
	"fmt"
	"hash/crc32"
	"io"
	"runtime"
	"runtime/debug"
	"sort"

	"github.com/foxglove/mcap/go/mcap"
	"pgregory.net/rapid"
	"verif/sim/internal/drive"
	"verif/sim/internal/refmcap"
	"verif/sim/internal/runner"
	"verif/sim/internal/scen"
	"verif/sim/internal/simdisk"
)

type c20 struct{ base }

func init() {
	runner.Register(&c20{base{
		id: "C20", level: "exploration",
		rule: "(A) indexed reads: the reference encoder builds files of many chunks whose time ranges have a chosen overlap depth d (1..8); they are read in 3 orders with and without topic/time filters and after EVERY NextInto the verif-tagged accessor is read: slots <= 1 in file order, <= d (measured closed-range overlap depth of the file) in log-time orders, live <= slots, buffer capacity <= 2x the d largest decompressed chunks. (B) streaming: generator sources synthesise many-chunk files and attachments on the fly (never held), sinks discard; HeapAlloc is sampled at I/O events and TotalAlloc compared between a short and a 16-32x longer stream: sequential lexer reads (validate on/off, none/zstd/lz4), lexer attachment callback draining in 4 KiB reads, scan iterator over a file with a large attachment, WriteAttachment from a generator. distinct by (part, order, depth, filter, compression, stream kind)",
		assumptions: []string{
			"GC timing is not owned by the simulator: heap thresholds sit an order of magnitude above the constant working set and far below the stream length",
			"overlap depth bound uses closed ranges of all chunks, an upper bound on what a filtered read needs",
		},
		batches: map[string]int{"quick": 32, "thorough": 128},
		checks:  map[string]int{"quick": 10, "thorough": 24},
	}})
}

type c20Extra struct {
	Part   string   `json:"part"` // "indexed", "stream"
	Chunks int      `json:"chunks,omitempty"`
	Depth  int      `json:"depth,omitempty"`
	PerCh  int      `json:"per_chunk,omitempty"` // messages per chunk
	Comp   string   `json:"comp,omitempty"`
	Order  int      `json:"order,omitempty"`
	Topics []string `json:"topics,omitempty"`
	Window bool     `json:"window,omitempty"`
	Jitter int      `json:"jitter,omitempty"`
	// stream
	Kind     string `json:"kind,omitempty"` // "lexer", "lexer_crc", "attach_read", "scan_attach", "attach_write"
	SizeMiB  int    `json:"size_mib,omitempty"`
	ChunkKiB int    `json:"chunk_kib,omitempty"`
}

func (p *c20) Draw(t *rapid.T, tier string) *runner.Scenario {
	ex := c20Extra{}
	if rapid.IntRange(0, 3).Draw(t, "part") != 0 {
		ex.Part = "indexed"
		maxChunks := 100
		if tier == "thorough" {
			maxChunks = 1000
		}
		ex.Chunks = rapid.IntRange(10, maxChunks).Draw(t, "chunks")
		ex.Depth = rapid.IntRange(1, 8).Draw(t, "depth")
		ex.PerCh = rapid.IntRange(1, 12).Draw(t, "per_chunk")
		ex.Comp = pick(t, "comp", "", "", "lz4", "zstd")
		ex.Order = rapid.IntRange(0, 2).Draw(t, "order")
		ex.Jitter = rapid.IntRange(0, 3).Draw(t, "jitter")
		switch pick(t, "filter", "none", "none", "topic", "window", "both") {
		case "topic":
			ex.Topics = []string{"/t1"}
		case "window":
			ex.Window = true
		case "both":
			ex.Topics = []string{"/t2"}
			ex.Window = true
		}
	} else {
		ex.Part = "stream"
		ex.Kind = pick(t, "kind", "lexer", "lexer_crc", "attach_read", "scan_attach", "attach_write")
		ex.Comp = pick(t, "comp", "", "lz4", "zstd")
		ex.ChunkKiB = pick(t, "chunk_kib", 16, 64, 256)
		if tier == "thorough" {
			ex.SizeMiB = pick(t, "size_mib", 64, 128, 256)
		} else {
			ex.SizeMiB = pick(t, "size_mib", 8, 16, 32)
		}
	}
	b, _ := json.Marshal(ex)
	return &runner.Scenario{Extra: b}
}

// ---- part A: slots -----------------------------------------------------------------

func (p *c20) indexed(sc *runner.Scenario, ex *c20Extra, st *runner.Stats, pin string) *runner.Violation {
	// chunk i covers [i*10, (i+depth-1)*10+9]: at most `depth` closed ranges share a point
	fs := &refmcap.FileSpec{Library: "refmcap", DataCRC: true, SummaryCRC: true}
	fs.Items = append(fs.Items, refmcap.Item{Op: refmcap.OpSchema, Schema: &refmcap.Schema{ID: 1, Name: "s", Encoding: "e"}})
	for c := 1; c <= 2; c++ {
		fs.Items = append(fs.Items, refmcap.Item{Op: refmcap.OpChannel, Channel: &refmcap.Channel{ID: uint16(c), SchemaID: 1, Topic: fmt.Sprintf("/t%d", c), MessageEncoding: "m"}})
	}
	type rng struct{ lo, hi uint64 }
	var ranges []rng
	var sizes []int
	seq := uint32(0)
	total := 0
	for i := 0; i < ex.Chunks; i++ {
		cs := &refmcap.ChunkSpec{Compression: ex.Comp, CRC: true, MessageIndex: true}
		lo := uint64(i * 10)
		hi := uint64((i+ex.Depth-1)*10 + 9)
		r := rng{}
		size := 0
		for k := 0; k < ex.PerCh; k++ {
			seq++
			var tt uint64
			switch {
			case k == 0:
				tt = lo
			case k == ex.PerCh-1:
				tt = hi
			default:
				tt = lo + scen.Mix(uint64(i), uint64(k), uint64(ex.Jitter))%(hi-lo+1)
			}
			if k == 0 || tt < r.lo {
				r.lo = tt
			}
			if k == 0 || tt > r.hi {
				r.hi = tt
			}
			data := make([]byte, 40+int(scen.Mix(uint64(seq))%200))
			binary.LittleEndian.PutUint32(data, seq)
			cs.Items = append(cs.Items, refmcap.Item{Op: refmcap.OpMessage, Message: &refmcap.Message{ChannelID: uint16(1 + k%2), Sequence: seq, LogTime: tt, PublishTime: tt, Data: data}})
			size += 9 + 22 + len(data)
			total++
		}
		ranges = append(ranges, r)
		sizes = append(sizes, size)
		fs.Items = append(fs.Items, refmcap.Item{Op: refmcap.OpChunk, Chunk: cs})
	}
	fs.Summary = refmcap.SummarySpec{Order: []byte{refmcap.OpSchema, refmcap.OpChannel, refmcap.OpStatistics, refmcap.OpChunkIndex}, Offsets: true}
	img, err := refmcap.Encode(fs)
	if err != nil {
		return viol(sc, "harness", "encode: %v", err)
	}
	// measured closed-range overlap depth (sweep line)
	type ev struct {
		t     uint64
		delta int
	}
	var evs []ev
	for _, r := range ranges {
		evs = append(evs, ev{r.lo, +1}, ev{r.hi, -1})
	}
	sort.Slice(evs, func(i, j int) bool {
		if evs[i].t != evs[j].t {
			return evs[i].t < evs[j].t
		}
		return evs[i].delta > evs[j].delta // opens before closes: closed ranges
	})
	depth, cur := 0, 0
	for _, e := range evs {
		cur += e.delta
		if cur > depth {
			depth = cur
		}
	}
	sort.Sort(sort.Reverse(sort.IntSlice(sizes)))
	capBound := uint64(0)
	for i := 0; i < depth && i < len(sizes); i++ {
		capBound += uint64(sizes[i])
	}
	capBound = 2*capBound + 64<<10
	opts := []mcap.ReadOpt{mcap.UsingIndex(true), mcap.InOrder(mcap.ReadOrder(ex.Order))}
	if len(ex.Topics) > 0 {
		opts = append(opts, mcap.WithTopics(ex.Topics))
	}
	if ex.Window {
		span := uint64(ex.Chunks * 10)
		opts = append(opts, mcap.AfterNanos(span/4+3), mcap.BeforeNanos(3*span/4+1))
	}
	allowed := depth
	if ex.Order == 0 {
		allowed = 1
	}
	src := simdisk.NewSeekSource(img, scen.Delivery{Kind: "full"}, nil)
	var clause, detail string
	maxSlots, maxLive := 0, 0
	var maxCap uint64
	res := &drive.IterResult{}
	pi := drive.Guard(func() {
		rd, err := mcap.NewReader(src)
		if err != nil {
			clause, detail = "unexpected_error", err.Error()
			return
		}
		defer rd.Close()
		it, err := rd.Messages(opts...)
		if err != nil {
			clause, detail = "unexpected_error", err.Error()
			return
		}
		drive.Iterate(it, "into_reuse", 10000000, res, func(n int) error {
			slots, live, capBytes, ok := mcap.VerifIterStats(it)
			if !ok {
				return fmt.Errorf("harness: not an indexed iterator")
			}
			if slots > maxSlots {
				maxSlots = slots
			}
			if live > maxLive {
				maxLive = live
			}
			if capBytes > maxCap {
				maxCap = capBytes
			}
			if slots > allowed && clause == "" {
				clause, detail = "slots_over_overlap", fmt.Sprintf("after message %d: %d chunk slots allocated, at most %d chunks overlap (order %d, %d chunks)", n, slots, allowed, ex.Order, ex.Chunks)
			}
			if capBytes > capBound && clause == "" && ex.Order != 0 {
				clause, detail = "slot_capacity", fmt.Sprintf("after message %d: slot buffers hold %d bytes, bound %d (2x the %d largest chunks)", n, capBytes, capBound, depth)
			}
			if rb, pending, ok := mcap.VerifIterScratchCap(it); ok && clause == "" {
				if pending > allowed*ex.PerCh {
					clause, detail = "slot_capacity", fmt.Sprintf("after message %d: %d message index entries pending, at most %d chunks x %d messages can be outstanding", n, pending, allowed, ex.PerCh)
				}
				if qc, ql, ok := mcap.VerifIterQueueCap(it); ok && clause == "" {
					// the queue may hold the unread entries of the overlapping chunks plus
					// yielded ones awaiting compaction (at most as many again), and Go's
					// append may double the capacity
					if limit := 8*allowed*ex.PerCh + 64; ql > limit || qc > 2*limit {
						clause, detail = "slot_capacity", fmt.Sprintf("after message %d: message index queue holds %d entries (capacity %d); at most %d chunks x %d messages can be outstanding", n, ql, qc, allowed, ex.PerCh)
					}
				}
				if rb > uint64(2*sizes[0])+64<<10 {
					clause, detail = "slot_capacity", fmt.Sprintf("after message %d: record scratch buffer holds %d bytes, largest chunk is %d", n, rb, sizes[0])
				}
			}
			return nil
		})
	})
	st.Evaluations++
	st.Add("event.next_calls", int64(len(res.Msgs)))
	st.Add("event.source_reads", int64(src.St.Reads))
	st.Add("event.source_seeks", int64(src.St.Seeks))
	st.Event(src.St.EventHash, uint64(maxSlots), uint64(len(res.Msgs)))
	if pi != nil {
		return viol(sc, "panic", "%s", pi)
	}
	if clause == "" && res.Terminal() != "eof" {
		clause, detail = "unexpected_error", fmt.Sprintf("read ended with %s: %v", res.Terminal(), res.FirstErr())
	}
	if clause != "" {
		if pinned(pin, clause) {
			return viol(sc, clause, "%s", detail)
		}
		return nil
	}
	if maxSlots > 1 {
		st.Inc("probe.slot_reused_with_several_live")
	}
	if maxSlots == depth && depth > 1 && ex.Order != 0 {
		st.Inc("probe.bound_reached")
	}
	st.DistinctCase(fmt.Sprintf("indexed|o%d|d%d|t%v w%v|%s|c%d", ex.Order, depth, len(ex.Topics) > 0, ex.Window, ex.Comp, bucket(ex.Chunks/10)))
	return nil
}

// ---- part B: streaming -----------------------------------------------------------

// genSource synthesises a file: prefix, then body repeated n times (or n
// generated bytes when body is nil), then suffix. It never holds the stream.
type genSource struct {
	parts   [][]byte // prefix, body, suffix
	repeat  int64    // times the body is repeated
	genLen  int64    // if > 0: instead of parts[1] x repeat, genLen pseudo-random bytes
	stage   int
	off     int64 // offset inside the current part / generated region
	rep     int64
	crc     uint32 // running crc of the generated region (for the attachment crc)
	crcBase []byte // bytes preceding the generated region that the crc covers
	crcDone bool
	probe   *memProbe
	total   int64
}

type memProbe struct {
	calls    int
	every    int
	base     uint64
	peakHeap uint64
	samples  int
}

func (m *memProbe) tick() {
	m.calls++
	if m.calls%m.every != 0 {
		return
	}
	var ms runtime.MemStats
	runtime.ReadMemStats(&ms)
	m.samples++
	if ms.HeapAlloc > m.peakHeap {
		m.peakHeap = ms.HeapAlloc
	}
}

func genByte(i int64) byte { return byte(i*131 + i>>8) }

func (g *genSource) Read(p []byte) (int, error) {
	g.probe.tick()
	for {
		switch g.stage {
		case 0, 2:
			part := g.parts[g.stage]
			if g.off < int64(len(part)) {
				n := copy(p, part[g.off:])
				g.off += int64(n)
				g.total += int64(n)
				return n, nil
			}
			if g.stage == 2 {
				return 0, io.EOF
			}
			g.stage, g.off = 1, 0
		case 1:
			if g.genLen > 0 {
				if g.off >= g.genLen {
					if !g.crcDone {
						// emit the attachment crc as the first bytes of the suffix
						var b [4]byte
						binary.LittleEndian.PutUint32(b[:], g.crc)
						g.parts[2] = append(b[:], g.parts[2]...)
						g.crcDone = true
					}
					g.stage, g.off = 2, 0
					continue
				}
				n := len(p)
				if int64(n) > g.genLen-g.off {
					n = int(g.genLen - g.off)
				}
				if n > 1<<16 {
					n = 1 << 16
				}
				for i := 0; i < n; i++ {
					p[i] = genByte(g.off + int64(i))
				}
				g.crc = crc32.Update(g.crc, crc32.IEEETable, p[:n])
				g.off += int64(n)
				g.total += int64(n)
				return n, nil
			}
			body := g.parts[1]
			if g.rep >= g.repeat {
				g.stage, g.off = 2, 0
				continue
			}
			n := copy(p, body[g.off:])
			g.off += int64(n)
			g.total += int64(n)
			if g.off >= int64(len(body)) {
				g.off = 0
				g.rep++
			}
			return n, nil
		}
	}
}

// attachReader generates attachment data for the writer.
type attachReader struct {
	n, off int64
	probe  *memProbe
}

func (a *attachReader) Read(p []byte) (int, error) {
	a.probe.tick()
	if a.off >= a.n {
		return 0, io.EOF
	}
	n := len(p)
	if int64(n) > a.n-a.off {
		n = int(a.n - a.off)
	}
	for i := 0; i < n; i++ {
		p[i] = genByte(a.off + int64(i))
	}
	a.off += int64(n)
	return n, nil
}

type discardSink struct {
	n     int64
	probe *memProbe
}

func (d *discardSink) Write(p []byte) (int, error) {
	d.probe.tick()
	d.n += int64(len(p))
	return len(p), nil
}

func rec(op byte, body []byte) []byte {
	out := []byte{op}
	out = binary.LittleEndian.AppendUint64(out, uint64(len(body)))
	return append(out, body...)
}

func le32(v uint32) []byte { return binary.LittleEndian.AppendUint32(nil, v) }
func le64(v uint64) []byte { return binary.LittleEndian.AppendUint64(nil, v) }
func lstr(s string) []byte { return append(le32(uint32(len(s))), s...) }

func fileTail() []byte {
	var out []byte
	out = append(out, rec(refmcap.OpDataEnd, le32(0))...)
	out = append(out, rec(refmcap.OpFooter, append(append(le64(0), le64(0)...), le32(0)...))...)
	return append(out, refmcap.Magic...)
}

func fileHead() []byte {
	out := append([]byte{}, refmcap.Magic...)
	out = append(out, rec(refmcap.OpHeader, append(lstr(""), lstr("gen")...))...)
	out = append(out, rec(refmcap.OpSchema, append(append(append(le16(1), lstr("s")...), lstr("e")...), le32(0)...))...)
	out = append(out, rec(refmcap.OpChannel, append(append(append(append(le16(1), le16(1)...), lstr("/t")...), lstr("m")...), le32(0)...))...)
	return out
}

func le16(v uint16) []byte { return binary.LittleEndian.AppendUint16(nil, v) }

// oneChunk builds one chunk record of about kib KiB of message records.
func oneChunk(kib int, comp string) ([]byte, int, int) {
	var records []byte
	n := 0
	for len(records) < kib<<10 {
		data := make([]byte, 900)
		for i := range data {
			data[i] = genByte(int64(n*900 + i))
		}
		body := append(append(append(append(le16(1), le32(uint32(n))...), le64(uint64(n))...), le64(uint64(n))...), data...)
		records = append(records, rec(refmcap.OpMessage, body)...)
		n++
	}
	stored, _ := refmcap.Compress(comp, records)
	body := append(append(le64(0), le64(uint64(n))...), le64(uint64(len(records)))...)
	body = append(body, le32(crc32.ChecksumIEEE(records))...)
	body = append(body, lstr(comp)...)
	body = append(body, le64(uint64(len(stored)))...)
	body = append(body, stored...)
	return rec(refmcap.OpChunk, body), len(records), n
}

func attachmentHead(size int64) ([]byte, []byte) {
	fields := append(append(append(append(le64(7), le64(8)...), lstr("big")...), lstr("application/octet-stream")...), le64(uint64(size))...)
	hdr := []byte{refmcap.OpAttachment}
	hdr = binary.LittleEndian.AppendUint64(hdr, uint64(len(fields))+uint64(size)+4)
	return append(hdr, fields...), fields
}

type streamRun struct {
	totalAlloc uint64
	peakHeap   uint64
	bytes      int64
	units      int64
	err        string
}

func (p *c20) runStream(ex *c20Extra, sizeBytes int64) streamRun {
	runtime.GC()
	debug.FreeOSMemory()
	var before runtime.MemStats
	runtime.ReadMemStats(&before)
	probe := &memProbe{every: 64, base: before.HeapAlloc, peakHeap: before.HeapAlloc}
	out := streamRun{}
	fail := func(f string, a ...any) { out.err = fmt.Sprintf(f, a...) }
	switch ex.Kind {
	case "lexer", "lexer_crc":
		chunk, _, perChunk := oneChunk(ex.ChunkKiB, ex.Comp)
		repeat := sizeBytes / int64(len(chunk))
		if repeat < 2 {
			repeat = 2
		}
		src := &genSource{parts: [][]byte{fileHead(), chunk, fileTail()}, repeat: repeat, probe: probe}
		lx, err := mcap.NewLexer(src, &mcap.LexerOptions{ValidateChunkCRCs: ex.Kind == "lexer_crc"})
		if err != nil {
			fail("NewLexer: %v", err)
			break
		}
		buf := make([]byte, 0, 4096)
		msgs := int64(0)
		for {
			tt, rec, err := lx.Next(buf)
			if err != nil {
				if err != io.EOF {
					fail("lexer: %v", err)
				}
				break
			}
			if cap(rec) > cap(buf) {
				buf = rec[:0]
			}
			if tt == mcap.TokenMessage {
				msgs++
			}
		}
		lx.Close()
		if out.err == "" && msgs != repeat*int64(perChunk) {
			fail("lexer returned %d messages, stream holds %d", msgs, repeat*int64(perChunk))
		}
		out.bytes, out.units = src.total, msgs
	case "attach_read", "scan_attach":
		head, fields := attachmentHead(sizeBytes)
		src := &genSource{parts: [][]byte{append(fileHead(), head...), nil, fileTail()}, genLen: sizeBytes, probe: probe}
		src.crc = crc32.ChecksumIEEE(fields)
		if ex.Kind == "attach_read" {
			got := int64(-1)
			crcOK := false
			lx, err := mcap.NewLexer(src, &mcap.LexerOptions{ComputeAttachmentCRCs: true, AttachmentCallback: func(ar *mcap.AttachmentReader) error {
				buf := make([]byte, 4096)
				got = 0
				for {
					n, err := ar.Data().Read(buf)
					got += int64(n)
					if err == io.EOF {
						break
					}
					if err != nil {
						return err
					}
				}
				c1, err := ar.ComputedCRC()
				if err != nil {
					return err
				}
				c2, err := ar.ParsedCRC()
				if err != nil {
					return err
				}
				crcOK = c1 == c2
				return nil
			}})
			if err != nil {
				fail("NewLexer: %v", err)
				break
			}
			for {
				_, _, err := lx.Next(nil)
				if err != nil {
					if err != io.EOF {
						fail("lexer: %v", err)
					}
					break
				}
			}
			lx.Close()
			if out.err == "" && (got != sizeBytes || !crcOK) {
				fail("attachment callback saw %d of %d bytes, crc ok=%v", got, sizeBytes, crcOK)
			}
		} else {
			rd, err := mcap.NewReader(src)
			if err != nil {
				fail("NewReader: %v", err)
				break
			}
			it, err := rd.Messages(mcap.UsingIndex(false))
			if err != nil {
				fail("Messages: %v", err)
				break
			}
			for {
				_, _, _, err := it.NextInto(nil)
				if err != nil {
					if err != io.EOF {
						fail("scan: %v", err)
					}
					break
				}
			}
			rd.Close()
		}
		out.bytes, out.units = src.total, 1
	case "attach_write":
		sink := &discardSink{probe: probe}
		w, err := mcap.NewWriter(sink, &mcap.WriterOptions{Chunked: true, ChunkSize: 1 << 16, Compression: mcap.CompressionFormat(ex.Comp), IncludeCRC: true})
		if err != nil {
			fail("NewWriter: %v", err)
			break
		}
		if err := w.WriteHeader(&mcap.Header{}); err != nil {
			fail("WriteHeader: %v", err)
			break
		}
		if err := w.WriteAttachment(&mcap.Attachment{LogTime: 1, CreateTime: 2, Name: "big", MediaType: "x", DataSize: uint64(sizeBytes), Data: &attachReader{n: sizeBytes, probe: probe}}); err != nil {
			fail("WriteAttachment: %v", err)
			break
		}
		if err := w.Close(); err != nil {
			fail("Close: %v", err)
			break
		}
		out.bytes, out.units = sink.n, 1
	}
	var after runtime.MemStats
	runtime.ReadMemStats(&after)
	out.totalAlloc = after.TotalAlloc - before.TotalAlloc
	out.peakHeap = probe.peakHeap - minU64(probe.peakHeap, before.HeapAlloc)
	return out
}

func minU64(a, b uint64) uint64 {
	if a < b {
		return a
	}
	return b
}

func (p *c20) stream(sc *runner.Scenario, ex *c20Extra, st *runner.Stats, pin string) *runner.Violation {
	long := int64(ex.SizeMiB) << 20
	short := long / 16
	if short < 1<<20 {
		short = 1 << 20
	}
	a := p.runStream(ex, short)
	b := p.runStream(ex, long)
	st.Evaluations += 2
	st.Add("event.stream_bytes", a.bytes+b.bytes)
	st.Event(uint64(a.bytes), uint64(b.bytes), uint64(a.units), uint64(b.units))
	for _, r := range []streamRun{a, b} {
		if r.err != "" {
			return viol(sc, "unexpected_error", "stream %s: %s", ex.Kind, r.err)
		}
	}
	unit := uint64(ex.ChunkKiB) << 10
	if ex.Kind == "attach_read" || ex.Kind == "scan_attach" || ex.Kind == "attach_write" {
		unit = 1 << 20
	}
	heapBound := 32<<20 + 4*unit
	if b.peakHeap > heapBound && pinned(pin, "heap_grows_with_length") {
		return viol(sc, "heap_grows_with_length", "%s over %d MiB: live heap grew by %d bytes during the stream, bound %d", ex.Kind, ex.SizeMiB, b.peakHeap, heapBound)
	}
	switch ex.Kind {
	case "attach_read", "scan_attach", "attach_write":
		// total allocation must not depend on the attachment size
		if b.totalAlloc > a.totalAlloc+8<<20 && pinned(pin, "step_alloc_over_bound") {
			return viol(sc, "step_alloc_over_bound", "%s: streaming a %d MiB attachment allocated %d bytes in total, a %d MiB one %d bytes: allocation grows with the attachment size", ex.Kind, ex.SizeMiB, b.totalAlloc, short>>20, a.totalAlloc)
		}
	default:
		// per-unit allocation must not grow with stream length
		perA := float64(a.totalAlloc) / float64(a.units)
		perB := float64(b.totalAlloc) / float64(b.units)
		if perB > 2*perA+64 && b.totalAlloc > a.totalAlloc+16<<20 && pinned(pin, "step_alloc_over_bound") {
			return viol(sc, "step_alloc_over_bound", "%s: %.0f bytes allocated per message over %d MiB vs %.0f over %d MiB", ex.Kind, perB, ex.SizeMiB, perA, short>>20)
		}
	}
	st.Inc("probe.stream_" + ex.Kind)
	st.DistinctCase(fmt.Sprintf("stream|%s|%s|%d|%d", ex.Kind, ex.Comp, ex.ChunkKiB, ex.SizeMiB))
	return nil
}

func (p *c20) Check(sc *runner.Scenario, st *runner.Stats, pin string) *runner.Violation {
	var ex c20Extra
	if err := json.Unmarshal(sc.Extra, &ex); err != nil {
		return viol(sc, "harness", "bad extra: %v", err)
	}
	if ex.Part == "indexed" {
		return p.indexed(sc, &ex, st, pin)
	}
	return p.stream(sc, &ex, st, pin)
}
