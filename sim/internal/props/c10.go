package props

import (
	"encoding/binary"
	"encoding/json"
	"fmt"
	"io"
	"os"
	"runtime"
	"runtime/debug"
	"strings"
	"syscall"

	"github.com/foxglove/mcap/go/mcap"
	"pgregory.net/rapid"
	"verif/sim/internal/drive"
	"verif/sim/internal/gen"
	"verif/sim/internal/refmcap"
	"verif/sim/internal/runner"
	"verif/sim/internal/scen"
	"verif/sim/internal/simdisk"
)

type c10 struct{ base }

func init() {
	runner.Register(&c10{base{
		id: "C10", level: "exploration",
		rule: "seeded search over hostile inputs, each executed inside an isolated batch process with RLIMIT_AS = 8 GiB that announces the input it is about to run (so a dead process identifies it): (a) field-aware mutations of spec-valid files laid out by the reference encoder - every length/offset/size/count/crc/opcode field located by the FileMap (top level and inside uncompressed chunks) set to 0, 1, v-1, v+1, 2^27, 2^28, 2^31-1, 2^31, 2^32-1, 2^63, 2^64-9, 2^64-1; truncation, record duplication, splicing of two files, opcode changes (incl. chunk nested in chunk); (b) random byte strings behind a valid magic. Every input goes through every public decode entry point: lexer under 8 option sets (seekable and not, validation, emit chunks, invalid-chunk tokens, attachment callback, MaxRecordSize/MaxDecompressedChunkSize = 64 KiB), all 14 Parse* functions on every record body and on raw slices, NewReader, Info, Messages scan + indexed x 3 orders, GetMetadata / GetAttachmentReader at every indexed offset and at hostile offsets. oracle: no panic, process alive, every entry returns within the per-evaluation CPU watchdog and a token budget, and allocates no more than its ceiling (limits configured: 64 KiB + 2 x 64 KiB + 64 MiB; otherwise 2 x 2 GiB + 64 MiB) plus 4x the bytes actually present/returned. distinct by (mutation kind, field kind, record type, value class)",
		assumptions: []string{
			"coverage-guided search is not available inside a seeded replayable simulator and is not claimed",
			"decompression bombs (output large because the compressed stream says so) are allowed for: the allocation bound grows with the bytes actually returned",
			"inputs are at most 64 KiB",
		},
		batches: map[string]int{"quick": 48, "thorough": 96},
		checks:  map[string]int{"quick": 30, "thorough": 120},
	}})
}

// Prepare caps the address space of the batch process.
func (p *c10) Prepare() {
	lim := syscall.Rlimit{Cur: 8 << 30, Max: 8 << 30}
	_ = syscall.Setrlimit(syscall.RLIMIT_AS, &lim)
}

type c10Extra struct {
	Input []byte `json:"input"`
	How   string `json:"how"`
	Entry string `json:"entry,omitempty"` // replay: only this entry point
}

// 2^27 and 2^28 lie between the configured limits (64 KiB) plus the accounting slack and the
// 2 GiB ceiling: only there does ignoring a configured limit show as an allocation
var hostile = []uint64{0, 1, 1 << 27, 1 << 28, 1<<31 - 1, 1 << 31, 1<<32 - 1, 1 << 63, 1<<64 - 9, 1<<64 - 1}

func putField(img []byte, off int64, width int, v uint64) {
	if off < 0 || off+int64(width) > int64(len(img)) {
		return
	}
	switch width {
	case 1:
		img[off] = byte(v)
	case 2:
		binary.LittleEndian.PutUint16(img[off:], uint16(v))
	case 4:
		binary.LittleEndian.PutUint32(img[off:], uint32(v))
	case 8:
		binary.LittleEndian.PutUint64(img[off:], v)
	}
}

func getField(img []byte, off int64, width int) uint64 {
	switch width {
	case 1:
		return uint64(img[off])
	case 2:
		return uint64(binary.LittleEndian.Uint16(img[off:]))
	case 4:
		return uint64(binary.LittleEndian.Uint32(img[off:]))
	case 8:
		return binary.LittleEndian.Uint64(img[off:])
	}
	return 0
}

func (p *c10) Draw(t *rapid.T, tier string) *runner.Scenario {
	lim := gen.Limits{MaxOps: 12, MaxPayload: 200, MaxTotal: 1500, NoCustom: true}
	enumEvery := 80
	if tier == "thorough" {
		enumEvery = 12
	}
	// rapid biases integer draws to the ends of their range; hashing the draw makes
	// this choice uniform
	enumerate := scen.Mix(rapid.Uint64().Draw(t, "enumerate"))%uint64(enumEvery) == 0
	if enumerate {
		lim = gen.Limits{MaxOps: 6, MaxPayload: 40, MaxTotal: 200, NoCustom: true}
	}
	wl := gen.Workload(t, lim)
	lay := DrawLayout(t, wl, rapid.Bool().Draw(t, "indexed"), rapid.IntRange(0, 3).Draw(t, "decorate") == 0)
	spec := BuildSpec(wl, lay)
	how := pick(t, "how", "field", "field", "field", "field", "truncate", "dup", "splice", "opcode", "random", "valid", "stream", "stream")
	if h := os.Getenv("VERIF_C10_HOW"); h != "" {
		how = h // development aid: force one mutation kind
	}
	if enumerate {
		how = "enumerate"
	}
	streamDesc := ""
	if how == "stream" {
		// a compressed chunk whose stored stream does not deliver what the chunk header
		// declares; all pointers around it stay valid
		var chunks []*refmcap.ChunkSpec
		for i := range spec.Items {
			if c := spec.Items[i].Chunk; c != nil && c.Compression != "" {
				chunks = append(chunks, c)
			}
		}
		if len(chunks) > 0 {
			c := chunks[rapid.IntRange(0, len(chunks)-1).Draw(t, "stream_chunk")]
			kind := pick(t, "stream_kind", "short", "short", "empty", "long", "zstd_fcs", "lz4_size")
			val := hostile[rapid.IntRange(0, len(hostile)-1).Draw(t, "stream_value")]
			switch kind {
			case "zstd_fcs":
				c.Compression = "zstd"
			case "lz4_size":
				c.Compression = "lz4"
			}
			comp := c.Compression
			streamDesc = " " + comp + "." + kind
			c.Stored = func(records []byte) []byte {
				switch kind {
				case "short":
					out, _ := refmcap.Compress(comp, records[:len(records)/2])
					return out
				case "empty":
					out, _ := refmcap.Compress(comp, nil)
					return out
				case "long":
					out, _ := refmcap.Compress(comp, append(append([]byte{}, records...), records...))
					return out
				case "zstd_fcs":
					// zstd frame: magic, descriptor 0xC0 (8-byte content size, no single segment),
					// window descriptor, frame content size, one empty last raw block
					fr := []byte{0x28, 0xB5, 0x2F, 0xFD, 0xC0, 0x00}
					fr = binary.LittleEndian.AppendUint64(fr, val)
					return append(fr, 0x01, 0x00, 0x00)
				default:
					// lz4 frame: magic, FLG with content-size bit, BD, content size, header checksum byte, end mark
					fr := []byte{0x04, 0x22, 0x4D, 0x18, 0x68, 0x40}
					fr = binary.LittleEndian.AppendUint64(fr, val)
					return append(fr, 0x00, 0x00, 0x00, 0x00, 0x00)
				}
			}
		}
	}
	img, err := refmcap.Encode(spec)
	if err != nil {
		img = append([]byte{}, refmcap.Magic...)
	}
	f, _ := refmcap.Decode(img, refmcap.DecodeOptions{})
	in := append([]byte{}, img...)
	desc := how + streamDesc
	type fref struct {
		fl   refmcap.Field
		base int64
		rec  string
	}
	var fields []fref
	if f != nil {
		for _, r := range f.Records {
			for _, fl := range r.Fields {
				if fl.Kind != "bytes" && fl.Kind != "str" {
					fields = append(fields, fref{fl, 0, refmcap.OpName(r.Op)})
				}
			}
			if c, ok := r.V.(*refmcap.Chunk); ok && c.Compression == "" {
				for _, in := range c.Inner {
					for _, fl := range in.Fields {
						if fl.Kind != "bytes" && fl.Kind != "str" {
							fields = append(fields, fref{fl, c.RecordsOff, "Chunk>" + refmcap.OpName(in.Op)})
						}
					}
				}
			}
		}
	}
	switch how {
	case "field":
		n := rapid.IntRange(1, 2).Draw(t, "n_mut")
		// half of the mutations go to the fields that drive framing and allocation
		// (record lengths, length prefixes, sizes), inside chunks as often as outside
		var framing, inner []fref
		for _, fr := range fields {
			if fr.fl.Kind == "reclen" || fr.fl.Kind == "len" || fr.fl.Kind == "size" {
				framing = append(framing, fr)
			}
			if fr.base != 0 {
				inner = append(inner, fr)
			}
		}
		for i := 0; i < n && len(fields) > 0; i++ {
			pool := fields
			switch rapid.IntRange(0, 3).Draw(t, "field_pool") {
			case 0, 1:
				if len(framing) > 0 {
					pool = framing
				}
			case 2:
				if len(inner) > 0 {
					pool = inner
				}
			}
			fr := pool[rapid.IntRange(0, len(pool)-1).Draw(t, "field")]
			off := fr.base + fr.fl.Off
			cur := getField(in, off, fr.fl.Width)
			vals := append([]uint64{cur - 1, cur + 1, cur + 9, cur ^ 0x80, uint64(rapid.IntRange(0, 24).Draw(t, "small_value"))}, hostile...)
			v := vals[rapid.IntRange(0, len(vals)-1).Draw(t, "value")]
			putField(in, off, fr.fl.Width, v)
			vc := "hostile"
			if v == cur-1 || v == cur+1 || v == cur+9 {
				vc = "off_by"
			}
			desc += fmt.Sprintf(" %s.%s(%s)=%s", fr.rec, fr.fl.Name, fr.fl.Kind, vc)
		}
	case "truncate":
		if len(in) > 0 {
			in = in[:rapid.IntRange(0, len(in)-1).Draw(t, "cut")]
		}
	case "dup":
		if f != nil && len(f.Records) > 1 {
			r := f.Records[rapid.IntRange(0, len(f.Records)-1).Draw(t, "dup_rec")]
			at := f.Records[rapid.IntRange(0, len(f.Records)-1).Draw(t, "dup_at")].Off
			seg := append([]byte{}, img[r.Off:r.End()]...)
			in = append(append(append([]byte{}, img[:at]...), seg...), img[at:]...)
			desc += " " + refmcap.OpName(r.Op)
		}
	case "splice":
		wl2 := gen.Workload(t, lim)
		lay2 := DrawLayout(t, wl2, true, false)
		img2, err := refmcap.Encode(BuildSpec(wl2, lay2))
		if err == nil && len(img2) > 16 && len(img) > 16 {
			a := rapid.IntRange(8, len(img)-1).Draw(t, "splice_a")
			b := rapid.IntRange(8, len(img2)-1).Draw(t, "splice_b")
			in = append(append([]byte{}, img[:a]...), img2[b:]...)
		}
	case "opcode":
		if len(fields) > 0 {
			var ops []fref
			for _, fr := range fields {
				if fr.fl.Kind == "op" && fr.fl.Name == "opcode" {
					ops = append(ops, fr)
				}
			}
			if len(ops) > 0 {
				fr := ops[rapid.IntRange(0, len(ops)-1).Draw(t, "op_field")]
				v := byte(rapid.IntRange(0, 0x12).Draw(t, "op_value"))
				in[fr.base+fr.fl.Off] = v
				desc += fmt.Sprintf(" %s->0x%02x", fr.rec, v)
			}
		}
	case "random":
		n := rapid.IntRange(0, 300).Draw(t, "rand_len")
		seed := uint64(rapid.IntRange(0, 1<<30).Draw(t, "rand_seed"))
		in = append([]byte{}, refmcap.Magic...)
		for i := 0; i < n; i++ {
			b := byte(scen.Mix(seed, uint64(i)))
			if scen.Mix(seed, uint64(i), 7)%3 == 0 {
				b = byte(scen.Mix(seed, uint64(i), 9) % 16) // many valid opcodes / small numbers
			}
			in = append(in, b)
		}
		if rapid.Bool().Draw(t, "rand_tail") {
			in = append(in, img[len(img)-37:]...) // a real footer + magic
		}
	}
	if len(in) > 64<<10 {
		in = in[:64<<10]
	}
	ex, _ := json.Marshal(c10Extra{Input: in, How: desc})
	return &runner.Scenario{Extra: ex}
}

type c10Entry struct {
	name    string
	limited bool // MaxRecordSize / MaxDecompressedChunkSize configured
	run     func(in []byte, returned *int64) error
}

const c10TokenBudget = 2000000

func lexEntry(name string, seekable bool, spec drive.LexSpec) c10Entry {
	return c10Entry{name: name, limited: spec.MaxRecord > 0, run: func(in []byte, returned *int64) error {
		var src io.Reader
		if seekable {
			src = simdisk.NewSeekSource(in, scen.Delivery{Kind: "full"}, nil)
		} else {
			src = simdisk.NewSource(in, scen.Delivery{Kind: "full"}, nil)
		}
		cb := func(ar *mcap.AttachmentReader) error {
			n, _ := io.Copy(io.Discard, ar.Data())
			*returned += n
			_, _ = ar.ComputedCRC()
			_, _ = ar.ParsedCRC()
			return nil
		}
		lx, err := mcap.NewLexer(src, spec.Options(cb))
		if err != nil {
			return nil
		}
		defer lx.Close()
		for i := 0; ; i++ {
			if i > c10TokenBudget {
				return fmt.Errorf("no progress: more than %d tokens from a %d byte input", c10TokenBudget, len(in))
			}
			tt, rec, err := lx.Next(nil)
			*returned += int64(len(rec))
			if tt == mcap.TokenInvalidChunk {
				continue
			}
			if err != nil {
				return nil
			}
		}
	}}
}

func readerEntry(name string, spec drive.ReadSpec) c10Entry {
	return c10Entry{name: name, run: func(in []byte, returned *int64) error {
		src := simdisk.NewSeekSource(in, scen.Delivery{Kind: "full"}, nil)
		rd, err := mcap.NewReader(src)
		if err != nil {
			return nil
		}
		defer rd.Close()
		opts := []mcap.ReadOpt{mcap.UsingIndex(spec.UseIndex)}
		if spec.Order != 0 {
			opts = append(opts, mcap.InOrder(mcap.ReadOrder(spec.Order)))
		}
		opts = append(opts, mcap.WithMetadataCallback(func(*mcap.Metadata) error { return nil }))
		it, err := rd.Messages(opts...)
		if err != nil {
			return nil
		}
		for i := 0; ; i++ {
			if i > c10TokenBudget {
				return fmt.Errorf("no progress: more than %d messages from a %d byte input", c10TokenBudget, len(in))
			}
			_, _, m, err := it.NextInto(nil)
			if err != nil {
				return nil
			}
			*returned += int64(len(m.Data))
		}
	}}
}

var parseFuncs = []struct {
	name string
	f    func([]byte)
}{
	{"ParseHeader", func(b []byte) { _, _ = mcap.ParseHeader(b) }},
	{"ParseFooter", func(b []byte) { _, _ = mcap.ParseFooter(b) }},
	{"ParseSchema", func(b []byte) { _, _ = mcap.ParseSchema(b) }},
	{"ParseChannel", func(b []byte) { _, _ = mcap.ParseChannel(b) }},
	{"ParseMessage", func(b []byte) { _, _ = mcap.ParseMessage(b) }},
	{"ParseChunk", func(b []byte) { _, _ = mcap.ParseChunk(b) }},
	{"ParseMessageIndex", func(b []byte) { _, _ = mcap.ParseMessageIndex(b) }},
	{"ParseChunkIndex", func(b []byte) { _, _ = mcap.ParseChunkIndex(b) }},
	{"ParseAttachmentIndex", func(b []byte) { _, _ = mcap.ParseAttachmentIndex(b) }},
	{"ParseStatistics", func(b []byte) { _, _ = mcap.ParseStatistics(b) }},
	{"ParseMetadata", func(b []byte) { _, _ = mcap.ParseMetadata(b) }},
	{"ParseMetadataIndex", func(b []byte) { _, _ = mcap.ParseMetadataIndex(b) }},
	{"ParseSummaryOffset", func(b []byte) { _, _ = mcap.ParseSummaryOffset(b) }},
	{"ParseDataEnd", func(b []byte) { _, _ = mcap.ParseDataEnd(b) }},
	{"Message.PopulateFrom", func(b []byte) { m := &mcap.Message{}; _ = m.PopulateFrom(b, true) }},
}

func c10Entries() []c10Entry {
	es := []c10Entry{
		lexEntry("lexer/default", false, drive.LexSpec{NoOpts: false}),
		lexEntry("lexer/seekable", true, drive.LexSpec{}),
		lexEntry("lexer/validate", false, drive.LexSpec{Validate: true}),
		lexEntry("lexer/emit_invalid", true, drive.LexSpec{Validate: true, EmitInvalid: true}),
		lexEntry("lexer/emit_chunks", false, drive.LexSpec{EmitChunks: true}),
		lexEntry("lexer/attach_cb", false, drive.LexSpec{AttachCB: true, ComputeCRC: true}),
		lexEntry("lexer/limits_validate", false, drive.LexSpec{Validate: true, MaxRecord: 64 << 10, MaxChunk: 64 << 10, AttachCB: true}),
		lexEntry("lexer/limits", true, drive.LexSpec{MaxRecord: 64 << 10, MaxChunk: 64 << 10}),
		readerEntry("reader/scan", drive.ReadSpec{UseIndex: false}),
		readerEntry("reader/indexed0", drive.ReadSpec{UseIndex: true}),
		readerEntry("reader/indexed1", drive.ReadSpec{UseIndex: true, Order: 1}),
		readerEntry("reader/indexed2", drive.ReadSpec{UseIndex: true, Order: 2}),
	}
	es = append(es, c10Entry{name: "reader/info_random_access", run: func(in []byte, returned *int64) error {
		src := simdisk.NewSeekSource(in, scen.Delivery{Kind: "full"}, nil)
		rd, err := mcap.NewReader(src)
		if err != nil {
			return nil
		}
		defer rd.Close()
		offs := []uint64{0, 1, 8, uint64(len(in)) - 1, uint64(len(in)), uint64(len(in)) + 1, 1<<31 - 1, 1 << 32, 1 << 63, 1<<64 - 9, 1<<64 - 1}
		if info, err := rd.Info(); err == nil && info != nil {
			for _, ai := range info.AttachmentIndexes {
				offs = append(offs, ai.Offset)
			}
			for _, mi := range info.MetadataIndexes {
				offs = append(offs, mi.Offset)
			}
			if info.Statistics != nil {
				func() {
					defer func() { _ = recover() }() // ChannelCounts is documented to need consistent statistics; not a decode entry point
					_ = info.ChannelCounts()
				}()
			}
		}
		for _, o := range offs {
			if ar, err := rd.GetAttachmentReader(o); err == nil {
				n, _ := io.CopyN(io.Discard, ar.Data(), 1<<20)
				*returned += n
				_, _ = ar.ComputedCRC()
				_, _ = ar.ParsedCRC()
			}
			_, _ = rd.GetMetadata(o)
		}
		return nil
	}})
	es = append(es, c10Entry{name: "parse/record_bodies", run: func(in []byte, returned *int64) error {
		// bodies as the lexer frames them (chunks not expanded), then raw slices
		var bodies [][]byte
		if lx, err := mcap.NewLexer(simdisk.NewSource(in, scen.Delivery{Kind: "full"}, nil), &mcap.LexerOptions{EmitChunks: true, MaxRecordSize: 1 << 20}); err == nil {
			for i := 0; i < 5000; i++ {
				_, rec, err := lx.Next(nil)
				if err != nil {
					break
				}
				bodies = append(bodies, rec)
			}
			lx.Close()
		}
		for _, at := range []int{0, 8, 9, 17, 26, len(in) / 2, len(in) - 37, len(in) - 28, len(in) - 12} {
			if at >= 0 && at < len(in) {
				bodies = append(bodies, in[at:])
				if at+40 < len(in) {
					bodies = append(bodies, in[at:at+40])
				}
			}
		}
		for _, b := range bodies {
			*returned += int64(len(b)) // parsers may allocate in proportion to what they are given, not to what a length field claims
			for _, pf := range parseFuncs {
				if pi := drive.Guard(func() { pf.f(b) }); pi != nil {
					return fmt.Errorf("PANIC %s: %s", pf.name, pi)
				}
			}
		}
		return nil
	}})
	return es
}

func (p *c10) Check(sc *runner.Scenario, st *runner.Stats, pin string) *runner.Violation {
	var ex c10Extra
	if err := json.Unmarshal(sc.Extra, &ex); err != nil {
		return viol(sc, "harness", "bad extra: %v", err)
	}
	in := ex.Input
	kind := strings.SplitN(ex.How, " ", 2)[0]
	if kind == "enumerate" && ex.Entry == "" {
		return p.enumerate(sc, in, st, pin)
	}
	st.Inc("fault.stored_bytes." + kind)
	st.DistinctCase(ex.How)
	return p.runEntries(sc, &ex, nil, st, pin)
}

// enumerateValues are tried on EVERY framing field of the base file.
var enumerateValues = []uint64{0, 8, 9, 1<<32 - 1, 1<<64 - 1}

var enumerateEntries = map[string]bool{"lexer/default": true, "lexer/limits_validate": true, "reader/indexed0": true, "reader/info_random_access": true}

// enumerate is the fault-enumeration part of C10: for one small valid file,
// every framing field (record lengths, length prefixes, sizes; top level and inside
// uncompressed chunks) is set to every value of enumerateValues and
// to its own value -1, +1, and each resulting input goes through a fixed subset of
// the entry points.
func (p *c10) enumerate(sc *runner.Scenario, base []byte, st *runner.Stats, pin string) *runner.Violation {
	f, err := refmcap.Decode(base, refmcap.DecodeOptions{})
	if err != nil {
		return nil
	}
	type fref struct {
		fl   refmcap.Field
		base int64
		rec  string
	}
	var fields []fref
	add := func(fl refmcap.Field, b int64, rec string) {
		if fl.Kind == "reclen" || fl.Kind == "len" || fl.Kind == "size" {
			fields = append(fields, fref{fl, b, rec})
		}
	}
	for _, r := range f.Records {
		for _, fl := range r.Fields {
			add(fl, 0, refmcap.OpName(r.Op))
		}
		if c, ok := r.V.(*refmcap.Chunk); ok && c.Compression == "" {
			for _, in := range c.Inner {
				for _, fl := range in.Fields {
					add(fl, c.RecordsOff, "Chunk>"+refmcap.OpName(in.Op))
				}
			}
		}
	}
	st.Inc("probe.enumerated_files")
	for _, fr := range fields {
		off := fr.base + fr.fl.Off
		cur := getField(base, off, fr.fl.Width)
		vals := append([]uint64{cur - 1, cur + 1}, enumerateValues...)
		for _, v := range vals {
			mask := uint64(1)<<(8*uint(fr.fl.Width)) - 1
			if fr.fl.Width == 8 {
				mask = ^uint64(0)
			}
			if v&mask == cur {
				continue
			}
			in := append([]byte{}, base...)
			putField(in, off, fr.fl.Width, v)
			ex := &c10Extra{Input: in, How: fmt.Sprintf("field %s.%s(%s)=%d", fr.rec, fr.fl.Name, fr.fl.Kind, v&mask)}
			st.Inc("fault.stored_bytes.enumerated_field")
			if viol := p.runEntries(sc, ex, enumerateEntries, st, pin); viol != nil {
				return viol
			}
		}
		st.DistinctCase("enumerate " + fr.rec + "." + fr.fl.Name)
	}
	return nil
}

// runEntries runs one input through the entry points (all, or the subset only).
func (p *c10) runEntries(sc *runner.Scenario, exp *c10Extra, only map[string]bool, st *runner.Stats, pin string) *runner.Violation {
	ex := *exp
	in := ex.Input
	heavy := 0 // entries that allocated more than 100 MiB for this input
	for _, e := range c10Entries() {
		if ex.Entry != "" && ex.Entry != e.name {
			continue
		}
		if only != nil && ex.Entry == "" && !only[e.name] {
			continue
		}
		if ex.Entry == "" && heavy >= 2 && !e.limited && !strings.HasPrefix(e.name, "parse/") {
			// the input makes every unlimited entry allocate a (permitted) buffer of up
			// to 2 GiB (100 MiB and more count); zeroing those dominates the run time, so after two such
			// entries the remaining unlimited ones are skipped for this input
			st.Inc("skipped.entries_after_heavy_allocation")
			continue
		}
		cp := *sc
		exb, _ := json.Marshal(c10Extra{Input: in, How: ex.How, Entry: e.name})
		cp.Extra = exb
		st.InFlight(&cp)
		st.Doing(nil, e.name)
		var before, after runtime.MemStats
		runtime.ReadMemStats(&before)
		var returned int64
		var err error
		pi := drive.Guard(func() { err = e.run(append([]byte{}, in...), &returned) })
		runtime.ReadMemStats(&after)
		st.Evaluations++
		delta := after.TotalAlloc - before.TotalAlloc
		st.Event(uint64(len(in)), hashStr(e.name), uint64(returned))
		if delta > 128<<20 {
			st.Inc("probe.large_allocation_over_128MiB")
			debug.FreeOSMemory()
		}
		if delta > 100<<20 {
			heavy++
		}
		mk := func(clause, format string, a ...any) *runner.Violation {
			if !pinned(pin, clause) {
				return nil
			}
			return viol(&cp, clause, "%s on input %q (%d bytes): %s", e.name, ex.How, len(in), fmt.Sprintf(format, a...))
		}
		if pi != nil {
			if v := mk("panic@"+pi.Func, "%s", pi); v != nil {
				return v
			}
			continue
		}
		if err != nil {
			msg := err.Error()
			if strings.HasPrefix(msg, "PANIC ") {
				fn := strings.SplitN(strings.TrimPrefix(msg, "PANIC "), ":", 2)[0]
				if v := mk("panic@"+fn, "%s", msg); v != nil {
					return v
				}
				continue
			}
			if v := mk("cpu_stall", "%s", msg); v != nil {
				return v
			}
			continue
		}
		// unlimited lexer: one record buffer and one decompressed-chunk buffer, each
		// below 2 GiB. Readers over a 64 KiB input: the compressed record buffer is
		// bounded by the file size, leaving one decompressed-chunk buffer.
		ceiling := uint64(2*(2<<30) + 64<<20)
		if strings.HasPrefix(e.name, "reader/") {
			ceiling = 2<<30 + 64<<20
		}
		if e.limited {
			ceiling = 64<<10 + 2*(64<<10) + 64<<20
		}
		bound := ceiling + 4*uint64(int64(len(in))+returned) + 1<<20
		if strings.HasPrefix(e.name, "parse/") {
			// record parsers work on a buffer that is already in memory: everything they
			// allocate (strings, maps, index slices) is bounded by a multiple of its size
			bound = 1<<20 + 64*uint64(returned)*uint64(len(parseFuncs))
		}
		if delta > bound {
			if v := mk("alloc_over_ceiling@"+e.name, "allocated %d bytes in total; ceiling for this entry %d (+4x the %d bytes present/returned)", delta, ceiling, int64(len(in))+returned); v != nil {
				return v
			}
		}
	}
	return nil
}

func hashStr(s string) uint64 {
	var h uint64 = 1469598103934665603
	for i := 0; i < len(s); i++ {
		h ^= uint64(s[i])
		h *= 1099511628211
	}
	return h
}
