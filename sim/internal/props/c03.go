package props

import (
	"encoding/binary"
	"encoding/json"
	"fmt"

	"github.com/foxglove/mcap/go/mcap"
	"pgregory.net/rapid"
	"verif/sim/internal/drive"
	"verif/sim/internal/model"
	"verif/sim/internal/refmcap"
	"verif/sim/internal/runner"
	"verif/sim/internal/scen"
	"verif/sim/internal/simdisk"
)

type c03 struct{ base }

func init() {
	runner.Register(&c03{base{
		id: "C03", level: "exploration",
		rule: "files are laid out by the reference encoder (full control of which message sits in which chunk; chunk time ranges truthful). (i) deterministic sweep, no seed: EVERY file of up to 3 chunks x up to 3 messages with log times from {0,1,2,2^64-2} on one channel (85^3 = 614125 files), each read in log-time and reverse order; on 2 channels a stride slice of the 585^3 files with a topic filter. (ii) seeded search: tens of chunks, up to hundreds of messages, heavy ties (incl. >12 equal stamps), nested / backwards / empty chunks, per-chunk compression, topic filters and time windows. oracle: returned multiset == selected multiset (unique sequence numbers), monotone log time, messages of one chunk with equal log time keep file order (reverse file order in reverse), a second Messages() on the same reader and a fresh reader return the same sequence. distinct by (overlap pattern class, tie class, order, filter class)",
		assumptions: []string{
			"cross-chunk order among equal log times is not constrained by the property and is not checked",
			"the exhaustive flag is not set: the 2-channel sweep is only a slice",
		},
		batches: map[string]int{"quick": 16 + 40, "thorough": 64 + 96},
		checks:  map[string]int{"quick": 120, "thorough": 250},
	}})
}

type c03Msg struct {
	Ch int    `json:"ch"`
	T  uint64 `json:"t"`
}

type c03File struct {
	Channels    int        `json:"channels"`
	Chunks      [][]c03Msg `json:"chunks"`
	Comp        []string   `json:"comp,omitempty"`
	DefsInChunk bool       `json:"defs_in_chunk,omitempty"`
	MI          bool       `json:"mi,omitempty"`
}

func (f *c03File) topic(ch int) string { return fmt.Sprintf("/t%d", ch) }

// spec builds the reference layout and the list of messages (seq = global
// file-order position, chunk index kept aside).
func (f *c03File) spec() (*refmcap.FileSpec, []*model.Rec, []int) {
	fs := &refmcap.FileSpec{Profile: "", Library: "refmcap", DataCRC: true, SummaryCRC: true}
	defs := []refmcap.Item{{Op: refmcap.OpSchema, Schema: &refmcap.Schema{ID: 1, Name: "s", Encoding: "e", Data: []byte{1}}}}
	chanRecs := map[int]*model.Rec{}
	schemaRec := &model.Rec{Kind: "schema", ID: 1, Name: "s", Enc: "e", Data: []byte{1}}
	for c := 1; c <= f.Channels; c++ {
		defs = append(defs, refmcap.Item{Op: refmcap.OpChannel, Channel: &refmcap.Channel{ID: uint16(c), SchemaID: 1, Topic: f.topic(c), MessageEncoding: "m"}})
		chanRecs[c] = &model.Rec{Kind: "channel", ID: uint16(c), SchemaID: 1, Topic: f.topic(c), Enc: "m", Meta: []model.KV{}}
	}
	if !f.DefsInChunk {
		fs.Items = append(fs.Items, defs...)
	}
	var msgs []*model.Rec
	var chunkOf []int
	seq := uint32(0)
	for ci, ch := range f.Chunks {
		cs := &refmcap.ChunkSpec{CRC: true, MessageIndex: f.MI}
		if ci < len(f.Comp) {
			cs.Compression = f.Comp[ci]
		}
		if f.DefsInChunk && ci == 0 {
			cs.Items = append(cs.Items, defs...)
		}
		for _, m := range ch {
			seq++
			data := binary.LittleEndian.AppendUint32(nil, seq)
			cs.Items = append(cs.Items, refmcap.Item{Op: refmcap.OpMessage, Message: &refmcap.Message{ChannelID: uint16(m.Ch), Sequence: seq, LogTime: m.T, PublishTime: uint64(seq), Data: data}})
			msgs = append(msgs, &model.Rec{Kind: "message", ChannelID: uint16(m.Ch), Seq: seq, LogTime: m.T, PubTime: uint64(seq), Data: data, BoundChannel: chanRecs[m.Ch], BoundSchema: schemaRec})
			chunkOf = append(chunkOf, ci)
		}
		fs.Items = append(fs.Items, refmcap.Item{Op: refmcap.OpChunk, Chunk: cs})
	}
	if f.DefsInChunk && len(f.Chunks) == 0 {
		fs.Items = append(fs.Items, defs...)
	}
	fs.Summary = refmcap.SummarySpec{Order: []byte{refmcap.OpSchema, refmcap.OpChannel, refmcap.OpStatistics, refmcap.OpChunkIndex}, Offsets: true}
	return fs, msgs, chunkOf
}

type c03Read struct {
	Order  int      `json:"order"`
	Topics []string `json:"topics,omitempty"`
	Window bool     `json:"window,omitempty"`
	Start  uint64   `json:"start,omitempty"`
	End    uint64   `json:"end,omitempty"`
}

type c03Extra struct {
	File c03File `json:"file"`
	Read c03Read `json:"read"`
}

func (p *c03) Draw(t *rapid.T, tier string) *runner.Scenario {
	f := c03File{Channels: rapid.IntRange(1, 3).Draw(t, "channels"), DefsInChunk: rapid.Bool().Draw(t, "defs_in_chunk"), MI: rapid.Bool().Draw(t, "mi")}
	maxChunks, maxMsgs := 12, 24
	if tier == "thorough" {
		maxChunks, maxMsgs = 40, 60
	}
	nChunks := rapid.IntRange(1, maxChunks).Draw(t, "n_chunks")
	domain := pick(t, "time_domain", 2, 4, 4, 16, 1000)
	base := pick(t, "time_base", uint64(0), uint64(0), uint64(100), uint64(1<<64-1)-1100)
	for c := 0; c < nChunks; c++ {
		n := rapid.IntRange(0, maxMsgs).Draw(t, "n_msgs")
		shape := pick(t, "chunk_shape", "random", "random", "asc", "desc", "const")
		lo := uint64(rapid.IntRange(0, domain-1).Draw(t, "lo"))
		var ms []c03Msg
		for i := 0; i < n; i++ {
			var tt uint64
			switch shape {
			case "random":
				tt = uint64(rapid.IntRange(0, domain-1).Draw(t, "t"))
			case "asc":
				tt = (lo + uint64(i/2)) % uint64(domain)
			case "desc":
				tt = uint64(domain-1) - (lo+uint64(i/2))%uint64(domain)
			default:
				tt = lo
			}
			ms = append(ms, c03Msg{Ch: 1 + rapid.IntRange(0, f.Channels-1).Draw(t, "ch"), T: base + tt})
		}
		f.Chunks = append(f.Chunks, ms)
		f.Comp = append(f.Comp, pick(t, "comp", "", "", "", "lz4", "zstd"))
	}
	rd := c03Read{Order: rapid.IntRange(1, 2).Draw(t, "order")}
	if rapid.IntRange(0, 2).Draw(t, "filter_topics") == 0 {
		for c := 1; c <= f.Channels; c++ {
			if rapid.Bool().Draw(t, "topic_in") {
				rd.Topics = append(rd.Topics, f.topic(c))
			}
		}
	}
	if rapid.IntRange(0, 2).Draw(t, "window") == 0 {
		rd.Window = true
		a := base + uint64(rapid.IntRange(0, domain).Draw(t, "w_a"))
		b := base + uint64(rapid.IntRange(0, domain).Draw(t, "w_b"))
		if a > b {
			a, b = b, a
		}
		rd.Start, rd.End = a, b
	}
	ex, _ := json.Marshal(c03Extra{File: f, Read: rd})
	del := scen.Delivery{Kind: pick(t, "delivery", "full", "full", "hash_sizes", "one_byte"), Seed: 7}
	return &runner.Scenario{Extra: ex, Delivery: &del}
}

func (p *c03) Check(sc *runner.Scenario, st *runner.Stats, pin string) *runner.Violation {
	var ex c03Extra
	if err := json.Unmarshal(sc.Extra, &ex); err != nil {
		return viol(sc, "harness", "bad extra: %v", err)
	}
	del := scen.Delivery{Kind: "full"}
	if sc.Delivery != nil {
		del = *sc.Delivery
	}
	clause, detail := c03CheckFile(&ex.File, &ex.Read, del, st, true)
	if clause != "" && pinned(pin, clause) {
		return viol(sc, clause, "%s", detail)
	}
	return nil
}

func c03Select(msgs []*model.Rec, f *c03File, rd *c03Read) []int {
	var set map[string]bool
	if len(rd.Topics) > 0 {
		set = map[string]bool{}
		for _, t := range rd.Topics {
			set[t] = true
		}
	}
	var out []int
	for i, m := range msgs {
		if set != nil && !set[m.BoundChannel.Topic] {
			continue
		}
		if rd.Window && (m.LogTime < rd.Start || m.LogTime >= rd.End) {
			continue
		}
		out = append(out, i)
	}
	return out
}

// c03CheckFile encodes the file, reads it and evaluates the oracle. Returns
// ("","") when the property holds.
func c03CheckFile(f *c03File, rd *c03Read, del scen.Delivery, st *runner.Stats, account bool) (string, string) {
	fs, msgs, chunkOf := f.spec()
	img, err := refmcap.Encode(fs)
	if err != nil {
		return "harness", "encode: " + err.Error()
	}
	sel := c03Select(msgs, f, rd)
	opts := []mcap.ReadOpt{mcap.UsingIndex(true), mcap.InOrder(mcap.ReadOrder(rd.Order))}
	if len(rd.Topics) > 0 {
		opts = append(opts, mcap.WithTopics(rd.Topics))
	}
	if rd.Window {
		opts = append(opts, mcap.AfterNanos(rd.Start), mcap.BeforeNanos(rd.End))
	}
	read := func(r *mcap.Reader) (*drive.IterResult, error) {
		res := &drive.IterResult{}
		it, err := r.Messages(opts...)
		if err != nil {
			return nil, err
		}
		drive.Iterate(it, "into_nil", 100000, res, nil)
		return res, nil
	}
	src := simdisk.NewSeekSource(img, del, nil)
	var rdr *mcap.Reader
	var first, second, fresh *drive.IterResult
	var oerr, e1, e2, e3 error
	pi := drive.Guard(func() {
		rdr, oerr = mcap.NewReader(src)
		if oerr != nil {
			return
		}
		defer rdr.Close()
		first, e1 = read(rdr)
		if e1 == nil {
			second, e2 = read(rdr)
		}
	})
	st.Evaluations += 2
	st.Add("event.source_reads", int64(src.St.Reads))
	st.Add("event.source_seeks", int64(src.St.Seeks))
	st.Event(src.St.EventHash)
	if pi != nil {
		return "panic", pi.String()
	}
	if oerr != nil || e1 != nil || e2 != nil {
		// a file without any chunk has no index: time-ordered reads are refused
		nMsgs := len(msgs)
		if nMsgs == 0 && len(f.Chunks) == 0 {
			return "", ""
		}
		return "unexpected_error", fmt.Sprintf("open/Messages failed on a spec-valid indexed file: %v %v %v", oerr, e1, e2)
	}
	for _, r := range []*drive.IterResult{first, second} {
		if r.Panic != nil {
			return "panic", r.Panic.String()
		}
		if r.Terminal() != "eof" {
			return "unexpected_error", fmt.Sprintf("read ended with %s: %v", r.Terminal(), r.FirstErr())
		}
	}
	// exactly once
	bySeq := map[uint32]int{}
	for _, i := range sel {
		bySeq[msgs[i].Seq] = i
	}
	seen := map[uint32]bool{}
	for k, g := range first.Msgs {
		i, ok := bySeq[g.Seq]
		if !ok {
			return "lost_or_duplicated", fmt.Sprintf("position %d: message seq=%d t=%d was returned but not selected", k, g.Seq, g.LogTime)
		}
		if seen[g.Seq] {
			return "lost_or_duplicated", fmt.Sprintf("position %d: message seq=%d t=%d returned twice", k, g.Seq, g.LogTime)
		}
		seen[g.Seq] = true
		if d := model.Diff(msgs[i], g); d != "" {
			return "lost_or_duplicated", fmt.Sprintf("position %d: message seq=%d differs from what was written: %s", k, g.Seq, d)
		}
	}
	if len(first.Msgs) != len(sel) {
		for _, i := range sel {
			if !seen[msgs[i].Seq] {
				return "lost_or_duplicated", fmt.Sprintf("message seq=%d t=%d (chunk %d) selected but never returned (%d of %d returned)", msgs[i].Seq, msgs[i].LogTime, chunkOf[i], len(first.Msgs), len(sel))
			}
		}
	}
	if d := monotone(first.Msgs, rd.Order); d != "" {
		return "not_monotone", d
	}
	// in-chunk tie order
	lastInChunkAtTime := map[[2]uint64]uint32{}
	for k, g := range first.Msgs {
		i := bySeq[g.Seq]
		key := [2]uint64{uint64(chunkOf[i]), g.LogTime}
		if prev, ok := lastInChunkAtTime[key]; ok {
			if rd.Order == 1 && g.Seq < prev {
				return "in_chunk_tie_order", fmt.Sprintf("position %d: chunk %d, log time %d: seq %d returned after seq %d (file order lost)", k, chunkOf[i], g.LogTime, g.Seq, prev)
			}
			if rd.Order == 2 && g.Seq > prev {
				return "in_chunk_tie_order", fmt.Sprintf("position %d: chunk %d, log time %d: seq %d returned after seq %d (reverse file order lost)", k, chunkOf[i], g.LogTime, g.Seq, prev)
			}
		}
		lastInChunkAtTime[key] = g.Seq
	}
	if d := model.DiffSeq(first.Msgs, second.Msgs); d != "" {
		return "repeat_differs", "second Messages() on the same reader: " + d
	}
	if account {
		src2 := simdisk.NewSeekSource(img, del, nil)
		pi := drive.Guard(func() {
			r2, err := mcap.NewReader(src2)
			if err != nil {
				e3 = err
				return
			}
			defer r2.Close()
			fresh, e3 = read(r2)
		})
		st.Evaluations++
		if pi != nil {
			return "panic", pi.String()
		}
		if e3 != nil || fresh.Terminal() != "eof" {
			return "repeat_differs", fmt.Sprintf("fresh reader failed: %v", e3)
		}
		if d := model.DiffSeq(first.Msgs, fresh.Msgs); d != "" {
			return "repeat_differs", "fresh reader: " + d
		}
		// coverage classes
		maxTie := 0
		cnt := map[uint64]int{}
		for _, i := range sel {
			cnt[msgs[i].LogTime]++
			if cnt[msgs[i].LogTime] > maxTie {
				maxTie = cnt[msgs[i].LogTime]
			}
		}
		overlap, nested, backwards, empty := false, false, false, false
		type rng struct{ lo, hi uint64 }
		var rs []rng
		for _, ch := range f.Chunks {
			if len(ch) == 0 {
				empty = true
				continue
			}
			r := rng{ch[0].T, ch[0].T}
			for _, m := range ch {
				if m.T < r.lo {
					r.lo = m.T
				}
				if m.T > r.hi {
					r.hi = m.T
				}
			}
			rs = append(rs, r)
		}
		for i := range rs {
			for j := i + 1; j < len(rs); j++ {
				if rs[i].lo <= rs[j].hi && rs[j].lo <= rs[i].hi {
					overlap = true
				}
				if (rs[i].lo < rs[j].lo && rs[j].hi < rs[i].hi) || (rs[j].lo < rs[i].lo && rs[i].hi < rs[j].hi) {
					nested = true
				}
				if rs[j].hi < rs[i].lo {
					backwards = true
				}
			}
		}
		tieClass := "t1"
		switch {
		case maxTie > 12:
			tieClass = "t13+"
			st.Inc("probe.ties_over_12")
		case maxTie > 3:
			tieClass = "t4-12"
		case maxTie > 1:
			tieClass = "t2-3"
		}
		if overlap {
			st.Inc("probe.overlapping_chunks")
		}
		if nested {
			st.Inc("probe.nested_chunks")
		}
		if backwards {
			st.Inc("probe.backwards_chunks")
		}
		if empty {
			st.Inc("probe.empty_chunks")
		}
		if len(sel) >= 2 && len(f.Chunks) >= 2 {
			st.DistinctCase(fmt.Sprintf("seeded|c%d|o%v n%v b%v e%v|%s|o%d|tp%v w%v|mi%v", bucket(len(f.Chunks)), overlap, nested, backwards, empty, tieClass, rd.Order, len(rd.Topics) > 0, rd.Window, f.MI))
		}
	}
	return "", ""
}

func bucket(n int) int {
	switch {
	case n <= 1:
		return n
	case n <= 3:
		return 2
	case n <= 10:
		return 3
	default:
		return 4
	}
}

// ---- the deterministic sweep ----------------------------------------------------

var sweepTimes = []uint64{0, 1, 2, 1<<64 - 2}

// chunkShapes1 enumerates all message lists of length 0..3 over the 4-value
// time domain on one channel (85), or over (2 channels x 4 values) (585).
func chunkShapes(channels int) [][]c03Msg {
	var atoms []c03Msg
	for c := 1; c <= channels; c++ {
		for _, t := range sweepTimes {
			atoms = append(atoms, c03Msg{Ch: c, T: t})
		}
	}
	out := [][]c03Msg{{}}
	var rec func(prefix []c03Msg, depth int)
	rec = func(prefix []c03Msg, depth int) {
		if depth == 3 {
			return
		}
		for _, a := range atoms {
			next := append(append([]c03Msg{}, prefix...), a)
			out = append(out, next)
			rec(next, depth+1)
		}
	}
	rec(nil, 0)
	return out
}

func (p *c03) SweepBatches(tier string) int {
	if tier == "thorough" {
		return 64
	}
	return 16
}

func (p *c03) Sweep(tier string, batch int, verifSeed uint64, st *runner.Stats) *runner.Violation {
	nb := p.SweepBatches(tier)
	oneCh := nb
	if tier == "thorough" {
		oneCh = 16 // batches 0..15: the exhaustive 1-channel sweep; 16..63: the 2-channel slice
	}
	run := func(f *c03File, rd *c03Read, key string) *runner.Violation {
		st.Scenarios++
		clause, detail := c03CheckFile(f, rd, scen.Delivery{Kind: "full"}, st, false)
		if clause != "" {
			ex, _ := json.Marshal(c03Extra{File: *f, Read: *rd})
			sc := &runner.Scenario{Extra: ex, Delivery: &scen.Delivery{Kind: "full"}}
			return &runner.Violation{Clause: clause, Detail: "sweep " + key + ": " + detail, Scenario: sc}
		}
		return nil
	}
	if batch < oneCh {
		shapes := chunkShapes(1)
		n := len(shapes)
		total := n * n * n
		count := 0
		for idx := batch; idx < total; idx += oneCh {
			a, b, c := idx/(n*n), (idx/n)%n, idx%n
			f := &c03File{Channels: 1, Chunks: [][]c03Msg{shapes[a], shapes[b], shapes[c]}}
			for order := 1; order <= 2; order++ {
				if v := run(f, &c03Read{Order: order}, fmt.Sprintf("1ch idx=%d order=%d", idx, order)); v != nil {
					return v
				}
			}
			count++
		}
		st.Add("sweep.one_channel_files", int64(count))
		st.Add("sweep.one_channel_space", int64(total)/int64(oneCh))
		st.DistinctCase(fmt.Sprintf("sweep1|batch%d", batch))
		for i := 0; i < count; i += 1 + count/64 {
			st.DistinctCase(fmt.Sprintf("sweep1|%d|%d", batch, i))
		}
		return nil
	}
	// 2-channel slice: stride chosen from VERIF_SEED
	shapes := chunkShapes(2)
	n := uint64(len(shapes))
	total := n * n * n
	slices := uint64(nb - oneCh)
	perBatch := uint64(40000)
	stride := total/(slices*perBatch) | 1
	startAt := scen.Mix(verifSeed, uint64(batch)) % total
	count := 0
	for k := uint64(0); k < perBatch; k++ {
		idx := (startAt + k*stride*slices) % total
		a, b, c := idx/(n*n), (idx/n)%n, idx%n
		f := &c03File{Channels: 2, Chunks: [][]c03Msg{shapes[a], shapes[b], shapes[c]}}
		rd := &c03Read{Order: 1 + int(k%2)}
		switch k % 3 {
		case 1:
			rd.Topics = []string{"/t1"}
		case 2:
			rd.Topics = []string{"/t2"}
		}
		if v := run(f, rd, fmt.Sprintf("2ch idx=%d order=%d topics=%v", idx, rd.Order, rd.Topics)); v != nil {
			return v
		}
		count++
	}
	st.Add("sweep.two_channel_files", int64(count))
	st.Add("sweep.two_channel_space", int64(total))
	st.DistinctCase(fmt.Sprintf("sweep2|batch%d", batch))
	return nil
}
