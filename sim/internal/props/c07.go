package props

import (
	"encoding/binary"
	"fmt"
	"strings"

	"pgregory.net/rapid"
	"verif/sim/internal/drive"
	"verif/sim/internal/gen"
	"verif/sim/internal/model"
	"verif/sim/internal/refmcap"
	"verif/sim/internal/runner"
	"verif/sim/internal/scen"
	"verif/sim/internal/simdisk"
)

type c07 struct{ base }

func init() {
	runner.Register(&c07{base{
		id: "C07", level: "fault_enumeration",
		rule: "seeded search over files written with checksums (none/zstd/lz4 chunks, attachments); per file the stored-byte fault is enumerated exhaustively: EVERY single-bit flip of every byte of every chunk's stored records field, plus seeded multi-byte overwrites and byte-range swaps inside it and, for compressed chunks, replacement payloads of the same length that are well-formed streams carrying one more (forged) record behind the declared size, read through Lexer{ValidateChunkCRCs}, Lexer{ValidateChunkCRCs, EmitInvalidChunks} and, for a quarter of the faults, the latter with MaxDecompressedChunkSize one byte below the damaged chunk's size (the options struct is zeroed after NewLexer); and EVERY single-bit flip inside every attachment record body (fields, data, crc) read through the attachment callback with ComputeAttachmentCRCs. oracle: records emitted before the first report are a prefix of the pristine stream; then either the complete pristine stream (immaterial flip - never accepted for an uncompressed chunk) or an error / invalid-chunk token before any record of the damaged chunk; after an invalid-chunk token only pristine records follow. attachment: error, or computed != stored crc, or content identical - never altered content with agreeing CRCs. distinct by (compression, config class, op-shape class, reader mode, fault kind)",
		assumptions: []string{
			"a chunk whose true CRC-32 is 0 (p=2^-32) cannot be validated; not generated deliberately",
			"the non-indexed iterator offers no validation switch and is out of scope",
		},
		batches: map[string]int{"quick": 48, "thorough": 96},
		checks:  map[string]int{"quick": 3, "thorough": 10},
	}})
}

func (p *c07) Draw(t *rapid.T, tier string) *runner.Scenario {
	lim := smallLimits(tier)
	lim.NoCustom = true
	lim.ForceCRC = true
	lim.ForceChunked = rapid.IntRange(0, 4).Draw(t, "force_chunked") != 0
	lim.MaxOps = 12
	cfg := gen.Cfg(t, lim)
	cfg.SkipMagic = false
	if tier == "quick" {
		lim.MaxPayload, lim.MaxTotal = 160, 500
		if cfg.Chunked && cfg.Compression != "" {
			// a decompressor is set up for every single flip: keep these files smaller
			lim.MaxPayload, lim.MaxTotal, lim.MaxOps = 60, 150, 8
		}
	}
	wl := gen.Workload(t, lim)
	return &runner.Scenario{Cfg: &cfg, WL: &wl}
}

// chunkSpan describes, for one chunk, where its inner records sit in the
// pristine lexer stream.
type chunkSpan struct {
	rec      *refmcap.Record
	c        *refmcap.Chunk
	firstRec int // index in pristine content stream of the first inner record
	nInner   int
}

func (p *c07) checkChunkFault(sc *runner.Scenario, w *world, pristine map[string][]*model.Rec, spans []chunkSpan, ci int, f scen.Fault, st *runner.Stats, pin string) *runner.Violation {
	img := simdisk.Apply(w.image, f)
	span := spans[ci]
	comp := span.c.Compression
	if comp == "" {
		comp = "none"
	}
	modes := []string{"validate", "emit_invalid"}
	if f.Kind != "bit_flip" || scen.Mix(uint64(f.Off), uint64(f.Bit), 11)%4 == 0 {
		if span.c.UncompressedSize >= 2 {
			// additionally with a decompressed-size limit that the damaged chunk exceeds by one byte:
			// the chunk has to be refused, whatever else is configured
			modes = append(modes, "emit_invalid_limit")
		}
	}
	for _, mode := range modes {
		spec := drive.LexSpec{Validate: true, EmitInvalid: mode != "validate", AttachCB: true, ComputeCRC: true, MaxTokens: 200000}
		if mode == "emit_invalid_limit" {
			spec.MaxChunk = int(span.c.UncompressedSize) - 1
		}
		st.Doing(&f, fmt.Sprintf("chunk:%d:%s", ci, mode))
		lr := drive.LexAll(simdisk.NewSource(img, scen.Delivery{Kind: "full"}, nil), spec)
		st.Evaluations++
		st.Inc("fault." + f.Kind + "." + comp)
		got := contentRecs(lr.Recs)
		st.Event(uint64(f.Off), uint64(f.Bit), uint64(len(got)))
		mk := func(clause, format string, a ...any) *runner.Violation {
			if !pinned(pin, clause) {
				return nil
			}
			cp := *sc
			cp.Fault = &f
			cp.Mode = fmt.Sprintf("chunk:%d:%s", ci, mode)
			return viol(&cp, clause, "%s at byte %d (bit %d) of chunk %d's stored records (%s), lexer %s: %s", f.Kind, f.Off, f.Bit, ci, comp, mode, fmt.Sprintf(format, a...))
		}
		if lr.Panic != nil {
			if v := mk("panic", "%s", lr.Panic); v != nil {
				return v
			}
			continue
		}
		want := pristine[mode]
		if mode == "emit_invalid_limit" {
			want = pristine["emit_invalid"]
			st.Inc("probe.size_limit_below_damaged_chunk")
		}
		// strip invalid_chunk markers, remembering where the first one is
		firstInvalid := -1
		var plain []*model.Rec
		for _, r := range got {
			if r.Kind == "invalid_chunk" {
				if firstInvalid < 0 {
					firstInvalid = len(plain)
				}
				continue
			}
			plain = append(plain, r)
		}
		if lr.CleanEOF() && firstInvalid < 0 {
			// no report: must be the complete pristine stream
			if d := model.DiffSeq(want, plain); d != "" {
				if v := mk("altered_record_emitted", "no error was reported but the record stream differs from the original: %s", d); v != nil {
					return v
				}
				continue
			}
			if comp == "none" {
				if v := mk("undetected_flip_uncompressed", "the altered uncompressed chunk was accepted without any report"); v != nil {
					return v
				}
				continue
			}
			st.Inc("probe.immaterial_flip." + comp)
			continue
		}
		st.Inc("probe.reported." + comp)
		// records before the report: prefix of pristine, and nothing of the damaged chunk
		reportAt := len(plain)
		if firstInvalid >= 0 {
			reportAt = firstInvalid
		}
		if ok, d := model.IsPrefix(want, plain[:reportAt]); !ok {
			if v := mk("altered_record_emitted", "records emitted before the report are not a prefix of the original stream: %s", d); v != nil {
				return v
			}
			continue
		}
		if reportAt > span.firstRec {
			if v := mk("reported_late", "%d records were emitted before the report, the damaged chunk's first record is number %d", reportAt, span.firstRec); v != nil {
				return v
			}
			continue
		}
		if firstInvalid >= 0 {
			// after the invalid-chunk token: exactly the original records that follow the damaged chunk
			rest := plain[reportAt:]
			wantRest := want[span.firstRec+span.nInner:]
			if lr.CleanEOF() {
				if d := model.DiffSeq(wantRest, rest); d != "" {
					if v := mk("altered_record_emitted", "records after the invalid-chunk token differ from the original records after that chunk: %s", d); v != nil {
						return v
					}
				}
			} else if ok, d := model.IsPrefix(wantRest, rest); !ok {
				if v := mk("altered_record_emitted", "records after the invalid-chunk token: %s", d); v != nil {
					return v
				}
			}
		}
	}
	return nil
}

func (p *c07) checkAttachmentFault(sc *runner.Scenario, w *world, pristine []*model.Rec, ai int, f scen.Fault, st *runner.Stats, pin string) *runner.Violation {
	img := simdisk.Apply(w.image, f)
	// the callback asks for the two CRCs in either order (alternating with the bit)
	spec := drive.LexSpec{Validate: true, AttachCB: true, ComputeCRC: true, MaxTokens: 200000, ParsedFirst: f.Bit%2 == 1}
	st.Doing(&f, fmt.Sprintf("attachment:%d", ai))
	lr := drive.LexAll(simdisk.NewSource(img, scen.Delivery{Kind: "full"}, nil), spec)
	st.Evaluations++
	st.Inc("fault." + f.Kind + ".attachment")
	st.Event(uint64(f.Off), uint64(f.Bit), uint64(len(lr.Recs)))
	mk := func(clause, format string, a ...any) *runner.Violation {
		if !pinned(pin, clause) {
			return nil
		}
		cp := *sc
		cp.Fault = &f
		cp.Mode = fmt.Sprintf("attachment:%d", ai)
		return viol(&cp, clause, "%s at byte %d (bit %d, %s) of attachment %d: %s", f.Kind, f.Off, f.Bit, regionOf(w.file, f.Off, false), ai, fmt.Sprintf(format, a...))
	}
	if lr.Panic != nil {
		return mk("panic", "%s", lr.Panic)
	}
	// find the ai-th attachment surfaced by the callback
	n := 0
	for _, r := range lr.Recs {
		if !strings.HasPrefix(r.Kind, "attachment") || r.Kind == "attachment_index" {
			continue
		}
		if n == ai {
			switch r.Kind {
			case "attachment":
				// CRCs agree: content must be identical
				if d := model.Diff(pristine[ai], r); d != "" {
					return mk("attachment_altered_crc_agrees", "computed and stored CRC agree but the content differs from the original: %s", d)
				}
				st.Inc("probe.attachment_identical")
			case "attachment_crc_mismatch":
				st.Inc("probe.attachment_crc_mismatch")
			default:
				st.Inc("probe.attachment_error")
			}
			return nil
		}
		// an earlier attachment must be untouched
		if d := model.Diff(pristine[n], r); d != "" {
			return mk("attachment_altered_crc_agrees", "attachment %d (not the damaged one) differs: %s", n, d)
		}
		n++
	}
	// never surfaced: the lexer must have reported an error
	if lr.CleanEOF() {
		return mk("attachment_altered_crc_agrees", "the damaged attachment was never delivered and no error was reported")
	}
	st.Inc("probe.attachment_error")
	return nil
}

func (p *c07) Check(sc *runner.Scenario, st *runner.Stats, pin string) *runner.Violation {
	w, problem := build(*sc.Cfg, *sc.WL)
	st.Evaluations++
	st.Event(uint64(len(w.image)))
	if problem != "" {
		return viol(sc, "unexpected_error", "fault-free write failed: %s", problem)
	}
	if w.fileErr != nil {
		return viol(sc, "unexpected_error", "reference decoder cannot frame the file: %v", w.fileErr)
	}
	pristine := map[string][]*model.Rec{}
	for _, mode := range []string{"validate", "emit_invalid"} {
		lr := drive.LexAll(simdisk.NewSource(w.image, scen.Delivery{Kind: "full"}, nil), drive.LexSpec{Validate: true, EmitInvalid: mode == "emit_invalid", AttachCB: true, ComputeCRC: true})
		if lr.Panic != nil || !lr.CleanEOF() || lr.InvalidChunks > 0 {
			return viol(sc, "unexpected_error", "pristine file does not lex cleanly with validation (%s): %v %v invalid=%d", mode, lr.Panic, lr.Err, lr.InvalidChunks)
		}
		pristine[mode] = contentRecs(lr.Recs)
	}
	// locate chunks in the pristine stream: count content records before each chunk
	var spans []chunkSpan
	pos := 0
	var attRecs []*refmcap.Record
	for _, r := range w.file.Records {
		switch r.Op {
		case refmcap.OpChunk:
			c := r.V.(*refmcap.Chunk)
			spans = append(spans, chunkSpan{rec: r, c: c, firstRec: pos, nInner: len(c.Inner)})
			pos += len(c.Inner)
		case refmcap.OpAttachment:
			attRecs = append(attRecs, r)
			pos++
		default:
			pos++ // every other known top-level record is one token
		}
	}
	if pos != len(pristine["validate"]) {
		return viol(sc, "harness", "stream position bookkeeping: %d vs %d tokens", pos, len(pristine["validate"]))
	}
	var pristineAtt []*model.Rec
	for _, r := range pristine["validate"] {
		if r.Kind == "attachment" {
			pristineAtt = append(pristineAtt, r)
		}
	}
	// replay of one concrete fault
	if sc.Fault != nil {
		var kind, mode string
		var idx int
		parts := strings.Split(sc.Mode, ":")
		kind = parts[0]
		fmt.Sscan(parts[1], &idx)
		if len(parts) > 2 {
			mode = parts[2]
		}
		_ = mode
		if kind == "chunk" {
			if idx >= len(spans) {
				return nil
			}
			return p.checkChunkFault(sc, w, pristine, spans, idx, *sc.Fault, st, pin)
		}
		if idx >= len(pristineAtt) {
			return nil
		}
		return p.checkAttachmentFault(sc, w, pristineAtt, idx, *sc.Fault, st, pin)
	}
	nontrivial := len(w.content.Messages) >= 1 && (len(spans) >= 1 || len(attRecs) >= 1)
	for ci, sp := range spans {
		comp := sp.c.Compression
		if comp == "" {
			comp = "none"
		}
		n := int64(len(sp.c.Records))
		for off := int64(0); off < n; off++ {
			for bit := 0; bit < 8; bit++ {
				f := scen.Fault{Kind: "bit_flip", Off: sp.c.RecordsOff + off, Bit: bit}
				if v := p.checkChunkFault(sc, w, pristine, spans, ci, f, st, pin); v != nil {
					return v
				}
			}
		}
		// seeded overwrites and swaps inside the payload
		for k := 0; k < 8 && n >= 4; k++ {
			h := scen.Mix(uint64(ci), uint64(k), uint64(n))
			ln := 1 + int64(h%uint64(min64(16, n/2)))
			a := int64((h >> 16) % uint64(n-ln+1))
			bytesv := make([]byte, ln)
			for i := range bytesv {
				bytesv[i] = byte(scen.Mix(h, uint64(i)))
			}
			f := scen.Fault{Kind: "overwrite", Off: sp.c.RecordsOff + a, Bytes: bytesv}
			if string(w.image[f.Off:f.Off+ln]) != string(bytesv) {
				if v := p.checkChunkFault(sc, w, pristine, spans, ci, f, st, pin); v != nil {
					return v
				}
			}
			b := int64((h >> 40) % uint64(n-ln+1))
			if a+ln <= b || b+ln <= a {
				f2 := scen.Fault{Kind: "swap", Off: sp.c.RecordsOff + a, Off2: sp.c.RecordsOff + b, Len: ln}
				if string(w.image[f2.Off:f2.Off+ln]) != string(w.image[f2.Off2:f2.Off2+ln]) {
					if v := p.checkChunkFault(sc, w, pristine, spans, ci, f2, st, pin); v != nil {
						return v
					}
				}
			}
		}
		// a replacement payload of the same stored length that is itself a well-formed compressed
		// stream: it decompresses to the declared number of bytes followed by one more, forged, record
		for variant := 0; variant < 3 && comp != "none"; variant++ {
			repl := reframe(sp.c, variant)
			if repl == nil {
				st.Inc("probe.reframe_no_fit." + comp)
				continue
			}
			st.Inc("probe.reframe." + comp)
			f := scen.Fault{Kind: "overwrite", Off: sp.c.RecordsOff, Bytes: repl}
			if v := p.checkChunkFault(sc, w, pristine, spans, ci, f, st, pin); v != nil {
				return v
			}
		}
		st.Inc("probe.chunk_payload_enumerated." + comp)
		if nontrivial {
			st.DistinctCase(gen.CfgClass(*sc.Cfg) + "|" + gen.Shape(*sc.WL) + "|chunk|" + comp)
		}
	}
	for ai, ar := range attRecs {
		for off := ar.Off + 9; off < ar.End(); off++ {
			for bit := 0; bit < 8; bit++ {
				f := scen.Fault{Kind: "bit_flip", Off: off, Bit: bit}
				if v := p.checkAttachmentFault(sc, w, pristineAtt, ai, f, st, pin); v != nil {
					return v
				}
			}
		}
		st.Inc("probe.attachment_enumerated")
		if nontrivial {
			st.DistinctCase(gen.CfgClass(*sc.Cfg) + "|" + gen.Shape(*sc.WL) + "|attachment")
		}
	}
	return nil
}

// reframe builds a replacement for a compressed chunk's stored bytes, of exactly the same
// length: a well-formed zstd / lz4 stream whose content is the declared number of bytes
// (variant 0: the original content, 1: the original with one bit flipped, 2: zeros) followed
// by a forged message record, padded with a skippable frame. nil when it cannot be made to fit.
func reframe(c *refmcap.Chunk, variant int) []byte {
	if c.DecompErr != nil || uint64(len(c.Decompressed)) != c.UncompressedSize {
		return nil
	}
	content := append([]byte{}, c.Decompressed...)
	switch variant {
	case 1:
		if len(content) == 0 {
			return nil
		}
		content[len(content)/2] ^= 0x10
	case 2:
		for i := range content {
			content[i] = 0
		}
	}
	forged := refmcap.MessageBody(&refmcap.Message{ChannelID: 0, Sequence: 7, LogTime: 1, PublishTime: 1, Data: []byte("FORGED")})
	content = append(content, refmcap.OpMessage)
	content = binary.LittleEndian.AppendUint64(content, uint64(len(forged)))
	content = append(content, forged...)
	frame, err := refmcap.Compress(c.Compression, content)
	if err != nil {
		return nil
	}
	pad := len(c.Records) - len(frame)
	if pad < 0 || (pad > 0 && pad < 8) {
		return nil
	}
	if pad >= 8 {
		skip := make([]byte, pad)
		magic := uint32(0x184D2A50)
		binary.LittleEndian.PutUint32(skip, magic)
		binary.LittleEndian.PutUint32(skip[4:], uint32(pad-8))
		frame = append(frame, skip...)
	}
	if string(frame) == string(c.Records) {
		return nil
	}
	return frame
}

func min64(a, b int64) int64 {
	if a < b {
		return a
	}
	return b
}
