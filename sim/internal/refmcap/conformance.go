package refmcap

import (
	"bytes"
	"crypto/sha256"
	"encoding/hex"
	"encoding/json"
	"fmt"
	"os"
	"path/filepath"
	"sort"
	"strconv"
	"strings"
)

// The conformance pin: regenerate every tests/conformance/data/*/*.mcap from
// its .json expectation + feature list with Encode, and require sha256 and
// size to equal the Git-LFS pointer stored in the repository; then Decode the
// regenerated binary and require it to reproduce the expectation.

type confRecord struct {
	Type   string              `json:"type"`
	Fields [][]json.RawMessage `json:"fields"`
}

type confFile struct {
	Records []confRecord `json:"records"`
	Meta    struct {
		Variant struct {
			Features []string `json:"features"`
		} `json:"variant"`
	} `json:"meta"`
}

func (r *confRecord) field(name string) json.RawMessage {
	for _, f := range r.Fields {
		var n string
		if len(f) == 2 && json.Unmarshal(f[0], &n) == nil && n == name {
			return f[1]
		}
	}
	return nil
}

func cstr(raw json.RawMessage) string {
	var s string
	_ = json.Unmarshal(raw, &s)
	return s
}

func cnum(raw json.RawMessage) uint64 {
	v, _ := strconv.ParseUint(cstr(raw), 10, 64)
	return v
}

func cbytes(raw json.RawMessage) []byte {
	var l []string
	_ = json.Unmarshal(raw, &l)
	out := make([]byte, len(l))
	for i, s := range l {
		v, _ := strconv.Atoi(s)
		out[i] = byte(v)
	}
	return out
}

// cmap parses a JSON object preserving key order.
func cmap(raw json.RawMessage) []KV {
	dec := json.NewDecoder(bytes.NewReader(raw))
	tok, err := dec.Token()
	if err != nil || tok != json.Delim('{') {
		return nil
	}
	var out []KV
	for dec.More() {
		k, _ := dec.Token()
		v, _ := dec.Token()
		out = append(out, KV{fmt.Sprint(k), fmt.Sprint(v)})
	}
	return out
}

// SpecFromConformance builds the layout the reference generator
// (tests/conformance/scripts/generate-inputs.ts) uses for a vector.
func SpecFromConformance(cf *confFile) *FileSpec {
	feat := map[string]bool{}
	for _, f := range cf.Meta.Variant.Features {
		feat[f] = true
	}
	var pad []byte
	if feat["pad"] {
		pad = []byte{0x01, 0xff, 0xff}
	}
	fs := &FileSpec{HeaderPad: pad, DataCRC: true, SummaryCRC: true}
	var chunk *ChunkSpec
	if feat["ch"] {
		chunk = &ChunkSpec{CRC: true, MessageIndex: feat["mx"], IndexEmptyChannels: feat["mx"], MIPad: pad}
	}
	for i := range cf.Records {
		r := &cf.Records[i]
		if r.Type == "DataEnd" {
			break
		}
		var it Item
		switch r.Type {
		case "Header":
			fs.Profile, fs.Library = cstr(r.field("profile")), cstr(r.field("library"))
			continue
		case "Schema":
			it = Item{Op: OpSchema, Schema: &Schema{ID: uint16(cnum(r.field("id"))), Name: cstr(r.field("name")), Encoding: cstr(r.field("encoding")), Data: cbytes(r.field("data"))}}
		case "Channel":
			it = Item{Op: OpChannel, Channel: &Channel{ID: uint16(cnum(r.field("id"))), SchemaID: uint16(cnum(r.field("schema_id"))), Topic: cstr(r.field("topic")), MessageEncoding: cstr(r.field("message_encoding")), Metadata: cmap(r.field("metadata"))}}
		case "Message":
			it = Item{Op: OpMessage, Message: &Message{ChannelID: uint16(cnum(r.field("channel_id"))), Sequence: uint32(cnum(r.field("sequence"))), LogTime: cnum(r.field("log_time")), PublishTime: cnum(r.field("publish_time")), Data: cbytes(r.field("data"))}}
		case "Attachment":
			it = Item{Op: OpAttachment, Attachment: &Attachment{LogTime: cnum(r.field("log_time")), CreateTime: cnum(r.field("create_time")), Name: cstr(r.field("name")), MediaType: cstr(r.field("media_type")), Data: cbytes(r.field("data"))}, Pad: pad}
		case "Metadata":
			it = Item{Op: OpMetadata, Metadata: &Metadata{Name: cstr(r.field("name")), Metadata: cmap(r.field("metadata"))}, Pad: pad}
		default:
			continue
		}
		if chunk != nil && (it.Op == OpSchema || it.Op == OpChannel || it.Op == OpMessage) {
			chunk.Items = append(chunk.Items, it)
			continue
		}
		if it.Op == OpSchema || it.Op == OpChannel {
			it.Pad = pad
		}
		fs.Items = append(fs.Items, it)
	}
	if chunk != nil {
		fs.Items = append(fs.Items, Item{Op: OpChunk, Chunk: chunk})
	}
	s := &fs.Summary
	s.Pad = pad
	if feat["rsh"] {
		s.Order = append(s.Order, OpSchema)
	}
	if feat["rch"] {
		s.Order = append(s.Order, OpChannel)
	}
	if feat["st"] {
		s.Order = append(s.Order, OpStatistics)
	}
	if feat["mdx"] {
		s.Order = append(s.Order, OpMetadataIndex)
	}
	if feat["ax"] {
		s.Order = append(s.Order, OpAttachmentIndex)
	}
	if feat["chx"] {
		s.Order = append(s.Order, OpChunkIndex)
	}
	s.Offsets = feat["sum"]
	s.OffsetStartAlways = feat["sum"]
	return fs
}

// expectationOf renders a decoded record the way the .json files do.
func expectationOf(r *Record) (string, map[string]string) {
	f := map[string]string{}
	u := func(v uint64) string { return strconv.FormatUint(v, 10) }
	bl := func(b []byte) string {
		parts := make([]string, len(b))
		for i, x := range b {
			parts[i] = strconv.Itoa(int(x))
		}
		return "[" + strings.Join(parts, ",") + "]"
	}
	kv := func(m []KV) string {
		parts := make([]string, len(m))
		for i, p := range m {
			parts[i] = p.K + "=" + p.V
		}
		sort.Strings(parts)
		return "{" + strings.Join(parts, ",") + "}"
	}
	switch v := r.V.(type) {
	case *Header:
		f["profile"], f["library"] = v.Profile, v.Library
		return "Header", f
	case *Footer:
		f["summary_start"], f["summary_offset_start"], f["summary_crc"] = u(v.SummaryStart), u(v.SummaryOffsetStart), u(uint64(v.SummaryCRC))
		return "Footer", f
	case *Schema:
		f["id"], f["name"], f["encoding"], f["data"] = u(uint64(v.ID)), v.Name, v.Encoding, bl(v.Data)
		return "Schema", f
	case *Channel:
		f["id"], f["schema_id"], f["topic"], f["message_encoding"], f["metadata"] = u(uint64(v.ID)), u(uint64(v.SchemaID)), v.Topic, v.MessageEncoding, kv(v.Metadata)
		return "Channel", f
	case *Message:
		f["channel_id"], f["sequence"], f["log_time"], f["publish_time"], f["data"] = u(uint64(v.ChannelID)), u(uint64(v.Sequence)), u(v.LogTime), u(v.PublishTime), bl(v.Data)
		return "Message", f
	case *Attachment:
		f["log_time"], f["create_time"], f["name"], f["media_type"], f["data"], f["crc"] = u(v.LogTime), u(v.CreateTime), v.Name, v.MediaType, bl(v.Data), u(uint64(v.CRC))
		return "Attachment", f
	case *Metadata:
		f["name"], f["metadata"] = v.Name, kv(v.Metadata)
		return "Metadata", f
	case *DataEnd:
		f["data_section_crc"] = u(uint64(v.DataSectionCRC))
		return "DataEnd", f
	case *Statistics:
		f["message_count"], f["schema_count"], f["channel_count"], f["attachment_count"], f["metadata_count"], f["chunk_count"] = u(v.MessageCount), u(uint64(v.SchemaCount)), u(uint64(v.ChannelCount)), u(uint64(v.AttachmentCount)), u(uint64(v.MetadataCount)), u(uint64(v.ChunkCount))
		f["message_start_time"], f["message_end_time"] = u(v.MessageStartTime), u(v.MessageEndTime)
		var m []KV
		for _, c := range v.ChannelMessageCounts {
			m = append(m, KV{u(uint64(c.ChannelID)), u(c.Count)})
		}
		f["channel_message_counts"] = kv(m)
		return "Statistics", f
	case *ChunkIndex:
		f["message_start_time"], f["message_end_time"], f["chunk_start_offset"], f["chunk_length"] = u(v.MessageStartTime), u(v.MessageEndTime), u(v.ChunkStartOffset), u(v.ChunkLength)
		f["message_index_length"], f["compression"], f["compressed_size"], f["uncompressed_size"] = u(v.MessageIndexLength), v.Compression, u(v.CompressedSize), u(v.UncompressedSize)
		var m []KV
		for _, c := range v.MessageIndexOffsets {
			m = append(m, KV{u(uint64(c.ChannelID)), u(c.Offset)})
		}
		f["message_index_offsets"] = kv(m)
		return "ChunkIndex", f
	case *AttachmentIndex:
		f["offset"], f["length"], f["log_time"], f["create_time"], f["data_size"], f["name"], f["media_type"] = u(v.Offset), u(v.Length), u(v.LogTime), u(v.CreateTime), u(v.DataSize), v.Name, v.MediaType
		return "AttachmentIndex", f
	case *MetadataIndex:
		f["offset"], f["length"], f["name"] = u(v.Offset), u(v.Length), v.Name
		return "MetadataIndex", f
	case *SummaryOffset:
		f["group_opcode"], f["group_start"], f["group_length"] = u(uint64(v.GroupOpcode)), u(v.GroupStart), u(v.GroupLength)
		return "SummaryOffset", f
	}
	return OpName(r.Op), f
}

func expectedFields(r *confRecord) map[string]string {
	f := map[string]string{}
	for _, p := range r.Fields {
		if len(p) != 2 {
			continue
		}
		name := cstr(p[0])
		raw := bytes.TrimSpace(p[1])
		switch {
		case len(raw) > 0 && raw[0] == '[':
			f[name] = "[" + strings.Join(strSlice(raw), ",") + "]"
		case len(raw) > 0 && raw[0] == '{':
			m := cmap(raw)
			parts := make([]string, len(m))
			for i, kv := range m {
				parts[i] = kv.K + "=" + kv.V
			}
			sort.Strings(parts)
			f[name] = "{" + strings.Join(parts, ",") + "}"
		default:
			f[name] = cstr(raw)
		}
	}
	return f
}

func strSlice(raw json.RawMessage) []string {
	var l []string
	_ = json.Unmarshal(raw, &l)
	return l
}

// ConformancePin runs the pin over dir (tests/conformance/data). It returns
// the number of vectors checked and the list of problems.
func ConformancePin(dir string) (int, []string) {
	paths, _ := filepath.Glob(filepath.Join(dir, "*", "*.json"))
	sort.Strings(paths)
	var problems []string
	n := 0
	for _, p := range paths {
		b, err := os.ReadFile(p)
		if err != nil {
			problems = append(problems, p+": "+err.Error())
			continue
		}
		var cf confFile
		if err := json.Unmarshal(b, &cf); err != nil {
			problems = append(problems, p+": "+err.Error())
			continue
		}
		ptr, err := os.ReadFile(strings.TrimSuffix(p, ".json") + ".mcap")
		if err != nil {
			problems = append(problems, p+": no .mcap pointer: "+err.Error())
			continue
		}
		var oid string
		var size int
		for _, line := range strings.Split(string(ptr), "\n") {
			if strings.HasPrefix(line, "oid sha256:") {
				oid = strings.TrimPrefix(line, "oid sha256:")
			}
			if strings.HasPrefix(line, "size ") {
				size, _ = strconv.Atoi(strings.TrimPrefix(line, "size "))
			}
		}
		if oid == "" {
			problems = append(problems, p+": .mcap is not a Git-LFS pointer")
			continue
		}
		n++
		img, err := Encode(SpecFromConformance(&cf))
		if err != nil {
			problems = append(problems, p+": encode: "+err.Error())
			continue
		}
		sum := sha256.Sum256(img)
		if hex.EncodeToString(sum[:]) != oid || len(img) != size {
			problems = append(problems, fmt.Sprintf("%s: regenerated binary (%d bytes) does not match the LFS pointer (%d bytes)", filepath.Base(p), len(img), size))
			continue
		}
		// decode and compare with the expectation
		f, err := Decode(img, DecodeOptions{})
		if err != nil {
			problems = append(problems, p+": decode: "+err.Error())
			continue
		}
		var got []*Record
		for _, r := range f.Flat() {
			if r.Op != OpMessageIndex {
				got = append(got, r)
			}
		}
		if len(got) != len(cf.Records) {
			problems = append(problems, fmt.Sprintf("%s: decoded %d records, expectation lists %d", filepath.Base(p), len(got), len(cf.Records)))
			continue
		}
		for i, r := range got {
			typ, fields := expectationOf(r)
			if typ != cf.Records[i].Type {
				problems = append(problems, fmt.Sprintf("%s: record %d is %s, expected %s", filepath.Base(p), i, typ, cf.Records[i].Type))
				break
			}
			want := expectedFields(&cf.Records[i])
			for k, v := range want {
				if fields[k] != v {
					problems = append(problems, fmt.Sprintf("%s: record %d (%s) field %s = %q, expected %q", filepath.Base(p), i, typ, k, fields[k], v))
				}
			}
		}
		if iss := Validate(f); len(iss) > 0 {
			problems = append(problems, fmt.Sprintf("%s: validator rejects the reference layout: %s: %s", filepath.Base(p), iss[0].Clause, iss[0].Detail))
		}
		if iss, _ := CheckCRCs(img, f, true); len(iss) > 0 {
			problems = append(problems, fmt.Sprintf("%s: CRC check rejects the reference layout: %s: %s", filepath.Base(p), iss[0].Clause, iss[0].Detail))
		}
	}
	return n, problems
}
