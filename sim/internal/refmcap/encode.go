package refmcap

import (
	"bytes"
	"encoding/binary"
	"fmt"
	"hash/crc32"

	"github.com/klauspost/compress/zstd"
	"github.com/pierrec/lz4/v4"
)

// Item is one record to place in the data section or inside a chunk.
type Item struct {
	Op         byte
	Schema     *Schema
	Channel    *Channel
	Message    *Message
	Attachment *Attachment
	Metadata   *Metadata
	Chunk      *ChunkSpec
	Raw        []byte // body of an unknown-opcode record
	Pad        []byte // trailing bytes appended to the body (extensible records only)
}

// ChunkSpec lays out one chunk.
type ChunkSpec struct {
	Compression        string
	Items              []Item
	CRC                bool
	MessageIndex       bool
	IndexEmptyChannels bool   // also emit (empty) message index records for channels defined in the chunk without messages
	MIPad              []byte // padding on message index records
	// Hostile layouts (C10): Stored, when set, maps the uncompressed records to
	// the bytes to store instead of compressing them (a stream that decompresses
	// to fewer / more bytes than declared, a frame header declaring a huge content
	// size, ...); every pointer is still computed from what is written.
	Stored func(records []byte) []byte
}

// SummarySpec lays out the summary section.
type SummarySpec struct {
	// Order lists the group opcodes in the order they are written; a group
	// that is not listed is absent. Known: OpSchema, OpChannel, OpStatistics,
	// OpChunkIndex, OpAttachmentIndex, OpMetadataIndex. Any other opcode
	// writes the records of Unknown[opcode] as one group.
	Order   []byte
	Unknown map[byte][][]byte
	Offsets bool
	Pad     []byte // padding on every summary record and summary offset
	// UnknownOffsets: also write summary offsets for unknown groups
	UnknownOffsets bool
	// OffsetStartAlways: set summary_offset_start to the position of the offset
	// section even when it is empty (what the reference generator does)
	OffsetStartAlways bool
}

// FileSpec is a complete layout of a logical content.
type FileSpec struct {
	Profile, Library string
	HeaderPad        []byte
	Items            []Item
	Summary          SummarySpec
	DataCRC          bool
	SummaryCRC       bool
}

type enc struct{ b []byte }

func (e *enc) u8(v byte)    { e.b = append(e.b, v) }
func (e *enc) u16(v uint16) { e.b = binary.LittleEndian.AppendUint16(e.b, v) }
func (e *enc) u32(v uint32) { e.b = binary.LittleEndian.AppendUint32(e.b, v) }
func (e *enc) u64(v uint64) { e.b = binary.LittleEndian.AppendUint64(e.b, v) }
func (e *enc) str(s string) { e.u32(uint32(len(s))); e.b = append(e.b, s...) }
func (e *enc) raw(p []byte) { e.b = append(e.b, p...) }
func (e *enc) kv(m []KV) {
	var in enc
	for _, p := range m {
		in.str(p.K)
		in.str(p.V)
	}
	e.u32(uint32(len(in.b)))
	e.raw(in.b)
}

func record(op byte, body, pad []byte) []byte {
	out := make([]byte, 0, 9+len(body)+len(pad))
	out = append(out, op)
	out = binary.LittleEndian.AppendUint64(out, uint64(len(body)+len(pad)))
	out = append(out, body...)
	return append(out, pad...)
}

func SchemaBody(s *Schema) []byte {
	var e enc
	e.u16(s.ID)
	e.str(s.Name)
	e.str(s.Encoding)
	e.u32(uint32(len(s.Data)))
	e.raw(s.Data)
	return e.b
}

func ChannelBody(c *Channel) []byte {
	var e enc
	e.u16(c.ID)
	e.u16(c.SchemaID)
	e.str(c.Topic)
	e.str(c.MessageEncoding)
	e.kv(c.Metadata)
	return e.b
}

func MessageBody(m *Message) []byte {
	var e enc
	e.u16(m.ChannelID)
	e.u32(m.Sequence)
	e.u64(m.LogTime)
	e.u64(m.PublishTime)
	e.raw(m.Data)
	return e.b
}

func AttachmentBody(a *Attachment) []byte {
	var e enc
	e.u64(a.LogTime)
	e.u64(a.CreateTime)
	e.str(a.Name)
	e.str(a.MediaType)
	e.u64(uint64(len(a.Data)))
	e.raw(a.Data)
	e.u32(crc32.ChecksumIEEE(e.b))
	return e.b
}

func MetadataBody(m *Metadata) []byte {
	var e enc
	e.str(m.Name)
	e.kv(m.Metadata)
	return e.b
}

// Compress encodes chunk records.
func Compress(compression string, data []byte) ([]byte, error) {
	switch compression {
	case "":
		return data, nil
	case "zstd":
		w, err := zstd.NewWriter(nil, zstd.WithEncoderConcurrency(1), zstd.WithEncoderLevel(zstd.SpeedFastest))
		if err != nil {
			return nil, err
		}
		defer w.Close()
		return w.EncodeAll(data, nil), nil
	case "lz4":
		var buf bytes.Buffer
		w := lz4.NewWriter(&buf)
		if _, err := w.Write(data); err != nil {
			return nil, err
		}
		if err := w.Close(); err != nil {
			return nil, err
		}
		return buf.Bytes(), nil
	}
	return nil, fmt.Errorf("refmcap: cannot compress %q", compression)
}

type chunkIdx struct {
	start, end   uint64
	off, length  uint64
	mio          []ChanOff
	mil          uint64
	compression  string
	csize, usize uint64
}

// Encode lays the file out exactly as the spec describes; every pointer is
// computed from the bytes written.
func Encode(fs *FileSpec) ([]byte, error) {
	out := append([]byte{}, Magic...)
	{
		var e enc
		e.str(fs.Profile)
		e.str(fs.Library)
		out = append(out, record(OpHeader, e.b, fs.HeaderPad)...)
	}
	var schemas []*Schema
	var channels []*Channel
	seenSchema := map[uint16]bool{}
	seenChannel := map[uint16]bool{}
	var msgCount uint64
	var minT, maxT uint64
	var cmc []ChanCount
	cmcIdx := map[uint16]int{}
	var chunkIdxs []chunkIdx
	type attIdx struct {
		off, length uint64
		a           *Attachment
	}
	type mdIdx struct {
		off, length uint64
		name        string
	}
	var attIdxs []attIdx
	var mdIdxs []mdIdx
	nAtt, nMd, nChunks := 0, 0, 0
	note := func(it *Item) {
		switch it.Op {
		case OpSchema:
			if !seenSchema[it.Schema.ID] {
				seenSchema[it.Schema.ID] = true
				schemas = append(schemas, it.Schema)
			}
		case OpChannel:
			if !seenChannel[it.Channel.ID] {
				seenChannel[it.Channel.ID] = true
				channels = append(channels, it.Channel)
			}
		case OpMessage:
			m := it.Message
			if msgCount == 0 || m.LogTime < minT {
				minT = m.LogTime
			}
			if msgCount == 0 || m.LogTime > maxT {
				maxT = m.LogTime
			}
			msgCount++
			if i, ok := cmcIdx[m.ChannelID]; ok {
				cmc[i].Count++
			} else {
				cmcIdx[m.ChannelID] = len(cmc)
				cmc = append(cmc, ChanCount{m.ChannelID, 1})
			}
		}
	}
	body := func(it *Item) ([]byte, error) {
		switch it.Op {
		case OpSchema:
			return SchemaBody(it.Schema), nil
		case OpChannel:
			return ChannelBody(it.Channel), nil
		case OpMessage:
			return MessageBody(it.Message), nil
		case OpAttachment:
			return AttachmentBody(it.Attachment), nil
		case OpMetadata:
			return MetadataBody(it.Metadata), nil
		default:
			if it.Op >= 0x10 || it.Raw != nil {
				return it.Raw, nil
			}
			return nil, fmt.Errorf("refmcap: cannot encode item op 0x%02x here", it.Op)
		}
	}
	for i := range fs.Items {
		it := &fs.Items[i]
		if it.Op == OpChunk {
			cs := it.Chunk
			var cb []byte
			type mi struct {
				ch      uint16
				entries []IndexEntry
			}
			var mis []mi
			miIdx := map[uint16]int{}
			var cmin, cmax uint64
			n := 0
			for j := range cs.Items {
				in := &cs.Items[j]
				b, err := body(in)
				if err != nil {
					return nil, err
				}
				if in.Op == OpAttachment || in.Op == OpMetadata || in.Op == OpChunk {
					return nil, fmt.Errorf("refmcap: %s not allowed in a chunk", OpName(in.Op))
				}
				note(in)
				if in.Op == OpChannel && cs.IndexEmptyChannels {
					if _, ok := miIdx[in.Channel.ID]; !ok {
						miIdx[in.Channel.ID] = len(mis)
						mis = append(mis, mi{ch: in.Channel.ID})
					}
				}
				if in.Op == OpMessage {
					m := in.Message
					if n == 0 || m.LogTime < cmin {
						cmin = m.LogTime
					}
					if n == 0 || m.LogTime > cmax {
						cmax = m.LogTime
					}
					n++
					k, ok := miIdx[m.ChannelID]
					if !ok {
						k = len(mis)
						miIdx[m.ChannelID] = k
						mis = append(mis, mi{ch: m.ChannelID})
					}
					mis[k].entries = append(mis[k].entries, IndexEntry{m.LogTime, uint64(len(cb))})
				}
				pad := in.Pad
				if in.Op == OpMessage {
					pad = nil
				}
				cb = append(cb, record(in.Op, b, pad)...)
			}
			stored, err := Compress(cs.Compression, cb)
			if err != nil {
				return nil, err
			}
			if cs.Stored != nil {
				stored = cs.Stored(cb)
			}
			var e enc
			e.u64(cmin)
			e.u64(cmax)
			e.u64(uint64(len(cb)))
			if cs.CRC {
				e.u32(crc32.ChecksumIEEE(cb))
			} else {
				e.u32(0)
			}
			e.str(cs.Compression)
			e.u64(uint64(len(stored)))
			e.raw(stored)
			ci := chunkIdx{start: cmin, end: cmax, off: uint64(len(out)), compression: cs.Compression, csize: uint64(len(stored)), usize: uint64(len(cb))}
			rec := record(OpChunk, e.b, nil)
			ci.length = uint64(len(rec))
			out = append(out, rec...)
			if cs.MessageIndex {
				for _, m := range mis {
					ci.mio = append(ci.mio, ChanOff{m.ch, uint64(len(out))})
					var me enc
					me.u16(m.ch)
					me.u32(uint32(16 * len(m.entries)))
					for _, en := range m.entries {
						me.u64(en.LogTime)
						me.u64(en.Offset)
					}
					r := record(OpMessageIndex, me.b, cs.MIPad)
					ci.mil += uint64(len(r))
					out = append(out, r...)
				}
			}
			chunkIdxs = append(chunkIdxs, ci)
			nChunks++
			continue
		}
		b, err := body(it)
		if err != nil {
			return nil, err
		}
		note(it)
		pad := it.Pad
		if it.Op == OpMessage {
			pad = nil
		}
		off := uint64(len(out))
		rec := record(it.Op, b, pad)
		out = append(out, rec...)
		switch it.Op {
		case OpAttachment:
			nAtt++
			attIdxs = append(attIdxs, attIdx{off, uint64(len(rec)), it.Attachment})
		case OpMetadata:
			nMd++
			mdIdxs = append(mdIdxs, mdIdx{off, uint64(len(rec)), it.Metadata.Name})
		}
	}
	// data end
	{
		var e enc
		if fs.DataCRC {
			e.u32(crc32.ChecksumIEEE(out))
		} else {
			e.u32(0)
		}
		out = append(out, record(OpDataEnd, e.b, nil)...)
	}
	summaryStart := len(out)
	type grp struct {
		op            byte
		start, length uint64
	}
	var groups []grp
	sp := fs.Summary.Pad
	for _, op := range fs.Summary.Order {
		g := len(out)
		switch op {
		case OpSchema:
			for _, s := range schemas {
				out = append(out, record(OpSchema, SchemaBody(s), sp)...)
			}
		case OpChannel:
			for _, c := range channels {
				out = append(out, record(OpChannel, ChannelBody(c), sp)...)
			}
		case OpStatistics:
			var e enc
			e.u64(msgCount)
			e.u16(uint16(len(schemas)))
			e.u32(uint32(len(channels)))
			e.u32(uint32(nAtt))
			e.u32(uint32(nMd))
			e.u32(uint32(nChunks))
			e.u64(minT)
			e.u64(maxT)
			e.u32(uint32(10 * len(cmc)))
			for _, c := range cmc {
				e.u16(c.ChannelID)
				e.u64(c.Count)
			}
			out = append(out, record(OpStatistics, e.b, sp)...)
		case OpMetadataIndex:
			for _, m := range mdIdxs {
				var e enc
				e.u64(m.off)
				e.u64(m.length)
				e.str(m.name)
				out = append(out, record(OpMetadataIndex, e.b, sp)...)
			}
		case OpAttachmentIndex:
			for _, a := range attIdxs {
				var e enc
				e.u64(a.off)
				e.u64(a.length)
				e.u64(a.a.LogTime)
				e.u64(a.a.CreateTime)
				e.u64(uint64(len(a.a.Data)))
				e.str(a.a.Name)
				e.str(a.a.MediaType)
				out = append(out, record(OpAttachmentIndex, e.b, sp)...)
			}
		case OpChunkIndex:
			for _, c := range chunkIdxs {
				var e enc
				e.u64(c.start)
				e.u64(c.end)
				e.u64(c.off)
				e.u64(c.length)
				e.u32(uint32(10 * len(c.mio)))
				for _, m := range c.mio {
					e.u16(m.ChannelID)
					e.u64(m.Offset)
				}
				e.u64(c.mil)
				e.str(c.compression)
				e.u64(c.csize)
				e.u64(c.usize)
				out = append(out, record(OpChunkIndex, e.b, sp)...)
			}
		default:
			for _, raw := range fs.Summary.Unknown[op] {
				out = append(out, record(op, raw, nil)...)
			}
		}
		if len(out) > g {
			groups = append(groups, grp{op, uint64(g), uint64(len(out) - g)})
		}
	}
	hasSummary := len(out) != summaryStart
	offsetStart := 0
	if fs.Summary.Offsets {
		first := true
		if fs.Summary.OffsetStartAlways {
			offsetStart = len(out)
			first = false
		}
		for _, g := range groups {
			known := g.op == OpSchema || g.op == OpChannel || g.op == OpStatistics || g.op == OpMetadataIndex || g.op == OpAttachmentIndex || g.op == OpChunkIndex
			if !known && !fs.Summary.UnknownOffsets {
				continue
			}
			if first {
				offsetStart = len(out)
				first = false
			}
			var e enc
			e.u8(g.op)
			e.u64(g.start)
			e.u64(g.length)
			out = append(out, record(OpSummaryOffset, e.b, sp)...)
		}
	}
	// footer
	var f enc
	f.u8(OpFooter)
	f.u64(20)
	if hasSummary {
		f.u64(uint64(summaryStart))
	} else {
		f.u64(0)
	}
	f.u64(uint64(offsetStart))
	crcInput := append(append([]byte{}, out[summaryStart:]...), f.b...)
	out = append(out, f.b...)
	if fs.SummaryCRC {
		out = binary.LittleEndian.AppendUint32(out, crc32.ChecksumIEEE(crcInput))
	} else {
		out = binary.LittleEndian.AppendUint32(out, 0)
	}
	out = append(out, Magic...)
	return out, nil
}
