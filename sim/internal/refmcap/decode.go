// Package refmcap is the trusted base: an MCAP encoder, decoder and validator
// written from website/docs/spec/index.md. It shares no code with go/mcap
// (third-party zstd / lz4 / crc32 are used directly). It is pinned by
// regenerating the 416 conformance binaries (see selftest).
package refmcap

import (
	"bytes"
	"encoding/binary"
	"errors"
	"fmt"
	"io"

	"github.com/klauspost/compress/zstd"
	"github.com/pierrec/lz4/v4"
)

var Magic = []byte{0x89, 'M', 'C', 'A', 'P', 0x30, '\r', '\n'}

const (
	OpHeader          = 0x01
	OpFooter          = 0x02
	OpSchema          = 0x03
	OpChannel         = 0x04
	OpMessage         = 0x05
	OpChunk           = 0x06
	OpMessageIndex    = 0x07
	OpChunkIndex      = 0x08
	OpAttachment      = 0x09
	OpAttachmentIndex = 0x0A
	OpStatistics      = 0x0B
	OpMetadata        = 0x0C
	OpMetadataIndex   = 0x0D
	OpSummaryOffset   = 0x0E
	OpDataEnd         = 0x0F
)

func OpName(op byte) string {
	names := map[byte]string{1: "Header", 2: "Footer", 3: "Schema", 4: "Channel", 5: "Message", 6: "Chunk",
		7: "MessageIndex", 8: "ChunkIndex", 9: "Attachment", 10: "AttachmentIndex", 11: "Statistics",
		12: "Metadata", 13: "MetadataIndex", 14: "SummaryOffset", 15: "DataEnd"}
	if n, ok := names[op]; ok {
		return n
	}
	return fmt.Sprintf("Unknown(0x%02x)", op)
}

type KV struct{ K, V string }

type Header struct{ Profile, Library string }
type Footer struct {
	SummaryStart, SummaryOffsetStart uint64
	SummaryCRC                       uint32
}
type Schema struct {
	ID             uint16
	Name, Encoding string
	Data           []byte
}
type Channel struct {
	ID, SchemaID           uint16
	Topic, MessageEncoding string
	Metadata               []KV
}
type Message struct {
	ChannelID            uint16
	Sequence             uint32
	LogTime, PublishTime uint64
	Data                 []byte
}
type IndexEntry struct{ LogTime, Offset uint64 }
type MessageIndex struct {
	ChannelID uint16
	Entries   []IndexEntry
}
type ChanOff struct {
	ChannelID uint16
	Offset    uint64
}
type ChunkIndex struct {
	MessageStartTime, MessageEndTime uint64
	ChunkStartOffset, ChunkLength    uint64
	MessageIndexOffsets              []ChanOff
	MessageIndexLength               uint64
	Compression                      string
	CompressedSize, UncompressedSize uint64
}
type Attachment struct {
	LogTime, CreateTime uint64
	Name, MediaType     string
	Data                []byte
	CRC                 uint32
	DataOff             int64 // file offset of the data bytes
}
type AttachmentIndex struct {
	Offset, Length, LogTime, CreateTime, DataSize uint64
	Name, MediaType                               string
}
type ChanCount struct {
	ChannelID uint16
	Count     uint64
}
type Statistics struct {
	MessageCount                                             uint64
	SchemaCount                                              uint16
	ChannelCount, AttachmentCount, MetadataCount, ChunkCount uint32
	MessageStartTime, MessageEndTime                         uint64
	ChannelMessageCounts                                     []ChanCount
}
type Metadata struct {
	Name     string
	Metadata []KV
}
type MetadataIndex struct {
	Offset, Length uint64
	Name           string
}
type SummaryOffset struct {
	GroupOpcode             byte
	GroupStart, GroupLength uint64
}
type DataEnd struct{ DataSectionCRC uint32 }
type Chunk struct {
	MessageStartTime, MessageEndTime uint64
	UncompressedSize                 uint64
	UncompressedCRC                  uint32
	Compression                      string
	Records                          []byte // stored (compressed) bytes
	RecordsOff                       int64  // file offset of Records
	Decompressed                     []byte
	DecompErr                        error
	Inner                            []*Record
	InnerErr                         error
}
type Unknown struct{}

// Record is one decoded record with its location.
type Record struct {
	Op      byte
	Off     int64 // offset of the opcode byte (file offset, or offset inside the decompressed chunk)
	BodyLen uint64
	Body    []byte
	Used    int // bytes of Body consumed by the declared fields (rest is extension padding)
	Chunk   int // index into File.Records of the enclosing chunk, -1 at top level
	V       any
	Fields  []Field // field map (offsets relative to the same space as Off)
}

func (r *Record) End() int64 { return r.Off + 9 + int64(r.BodyLen) }

// Field locates one field for fault placement.
type Field struct {
	Name  string
	Off   int64
	Width int
	Kind  string // "op","reclen","len","off","size","count","time","crc","id","str","bytes","seq"
}

// File is a decoded file.
type File struct {
	Size        int64
	Records     []*Record // top-level records in file order
	DataEndIdx  int       // index of DataEnd in Records, -1
	FooterIdx   int
	HasMagicEnd bool
}

// Decompressor for custom codecs: name -> function.
type Decompressor func(stored []byte, uncompressedSize uint64) ([]byte, error)

type DecodeOptions struct {
	SkipMagic bool // leading magic absent
	Custom    map[string]Decompressor
}

type rd struct {
	b    []byte
	p    int
	base int64
	f    *[]Field
	err  error
}

func (r *rd) fail(what string) {
	if r.err == nil {
		r.err = fmt.Errorf("short record reading %s at %d", what, r.p)
	}
}
func (r *rd) note(name, kind string, w int) {
	if r.f != nil {
		*r.f = append(*r.f, Field{Name: name, Off: r.base + int64(r.p), Width: w, Kind: kind})
	}
}
func (r *rd) u8(name, kind string) byte {
	if r.err != nil || len(r.b)-r.p < 1 {
		r.fail(name)
		return 0
	}
	r.note(name, kind, 1)
	v := r.b[r.p]
	r.p++
	return v
}
func (r *rd) u16(name, kind string) uint16 {
	if r.err != nil || len(r.b)-r.p < 2 {
		r.fail(name)
		return 0
	}
	r.note(name, kind, 2)
	v := binary.LittleEndian.Uint16(r.b[r.p:])
	r.p += 2
	return v
}
func (r *rd) u32(name, kind string) uint32 {
	if r.err != nil || len(r.b)-r.p < 4 {
		r.fail(name)
		return 0
	}
	r.note(name, kind, 4)
	v := binary.LittleEndian.Uint32(r.b[r.p:])
	r.p += 4
	return v
}
func (r *rd) u64(name, kind string) uint64 {
	if r.err != nil || len(r.b)-r.p < 8 {
		r.fail(name)
		return 0
	}
	r.note(name, kind, 8)
	v := binary.LittleEndian.Uint64(r.b[r.p:])
	r.p += 8
	return v
}
func (r *rd) bytesN(name string, n uint64) []byte {
	if r.err != nil || uint64(len(r.b)-r.p) < n {
		r.fail(name)
		return nil
	}
	r.note(name, "bytes", int(n))
	v := r.b[r.p : r.p+int(n)]
	r.p += int(n)
	return v
}
func (r *rd) str(name string) string {
	n := r.u32(name+".len", "len")
	return string(r.bytesN(name, uint64(n)))
}
func (r *rd) kvmap(name string) []KV {
	n := r.u32(name+".len", "len")
	if r.err != nil || uint64(len(r.b)-r.p) < uint64(n) {
		r.fail(name)
		return nil
	}
	end := r.p + int(n)
	var out []KV
	for r.p < end && r.err == nil {
		k := r.str(name + ".key")
		v := r.str(name + ".value")
		out = append(out, KV{k, v})
	}
	if r.err == nil && r.p != end {
		r.err = fmt.Errorf("map %s overruns its byte length", name)
	}
	return out
}

// ParseBody decodes a record body. base is the offset of the body's first byte.
func ParseBody(op byte, body []byte, base int64, fields *[]Field) (any, int, error) {
	r := &rd{b: body, base: base, f: fields}
	var v any
	switch op {
	case OpHeader:
		v = &Header{Profile: r.str("profile"), Library: r.str("library")}
	case OpFooter:
		v = &Footer{SummaryStart: r.u64("summary_start", "off"), SummaryOffsetStart: r.u64("summary_offset_start", "off"), SummaryCRC: r.u32("summary_crc", "crc")}
	case OpSchema:
		s := &Schema{ID: r.u16("id", "id"), Name: r.str("name"), Encoding: r.str("encoding")}
		n := r.u32("data.len", "len")
		s.Data = append([]byte{}, r.bytesN("data", uint64(n))...)
		v = s
	case OpChannel:
		v = &Channel{ID: r.u16("id", "id"), SchemaID: r.u16("schema_id", "id"), Topic: r.str("topic"), MessageEncoding: r.str("message_encoding"), Metadata: r.kvmap("metadata")}
	case OpMessage:
		m := &Message{ChannelID: r.u16("channel_id", "id"), Sequence: r.u32("sequence", "seq"), LogTime: r.u64("log_time", "time"), PublishTime: r.u64("publish_time", "time")}
		if r.err == nil {
			m.Data = append([]byte{}, r.bytesN("data", uint64(len(body)-r.p))...)
		}
		v = m
	case OpMessageIndex:
		mi := &MessageIndex{ChannelID: r.u16("channel_id", "id")}
		n := r.u32("records.len", "len")
		if r.err == nil && (uint64(len(body)-r.p) < uint64(n) || n%16 != 0) {
			r.err = fmt.Errorf("message index records length %d invalid", n)
		}
		for i := uint32(0); i < n/16 && r.err == nil; i++ {
			mi.Entries = append(mi.Entries, IndexEntry{r.u64("records.log_time", "time"), r.u64("records.offset", "off")})
		}
		v = mi
	case OpChunkIndex:
		ci := &ChunkIndex{MessageStartTime: r.u64("message_start_time", "time"), MessageEndTime: r.u64("message_end_time", "time"),
			ChunkStartOffset: r.u64("chunk_start_offset", "off"), ChunkLength: r.u64("chunk_length", "size")}
		n := r.u32("message_index_offsets.len", "len")
		if r.err == nil && (uint64(len(body)-r.p) < uint64(n) || n%10 != 0) {
			r.err = fmt.Errorf("chunk index message_index_offsets length %d invalid", n)
		}
		for i := uint32(0); i < n/10 && r.err == nil; i++ {
			ci.MessageIndexOffsets = append(ci.MessageIndexOffsets, ChanOff{r.u16("message_index_offsets.channel_id", "id"), r.u64("message_index_offsets.offset", "off")})
		}
		ci.MessageIndexLength = r.u64("message_index_length", "size")
		ci.Compression = r.str("compression")
		ci.CompressedSize = r.u64("compressed_size", "size")
		ci.UncompressedSize = r.u64("uncompressed_size", "size")
		v = ci
	case OpAttachment:
		a := &Attachment{LogTime: r.u64("log_time", "time"), CreateTime: r.u64("create_time", "time"), Name: r.str("name"), MediaType: r.str("media_type")}
		n := r.u64("data.len", "len")
		a.DataOff = base + int64(r.p)
		a.Data = append([]byte{}, r.bytesN("data", n)...)
		a.CRC = r.u32("crc", "crc")
		v = a
	case OpAttachmentIndex:
		v = &AttachmentIndex{Offset: r.u64("offset", "off"), Length: r.u64("length", "size"), LogTime: r.u64("log_time", "time"), CreateTime: r.u64("create_time", "time"),
			DataSize: r.u64("data_size", "size"), Name: r.str("name"), MediaType: r.str("media_type")}
	case OpStatistics:
		s := &Statistics{MessageCount: r.u64("message_count", "count"), SchemaCount: r.u16("schema_count", "count"), ChannelCount: r.u32("channel_count", "count"),
			AttachmentCount: r.u32("attachment_count", "count"), MetadataCount: r.u32("metadata_count", "count"), ChunkCount: r.u32("chunk_count", "count"),
			MessageStartTime: r.u64("message_start_time", "time"), MessageEndTime: r.u64("message_end_time", "time")}
		n := r.u32("channel_message_counts.len", "len")
		if r.err == nil && (uint64(len(body)-r.p) < uint64(n) || n%10 != 0) {
			r.err = fmt.Errorf("statistics channel_message_counts length %d invalid", n)
		}
		for i := uint32(0); i < n/10 && r.err == nil; i++ {
			s.ChannelMessageCounts = append(s.ChannelMessageCounts, ChanCount{r.u16("channel_message_counts.channel_id", "id"), r.u64("channel_message_counts.count", "count")})
		}
		v = s
	case OpMetadata:
		v = &Metadata{Name: r.str("name"), Metadata: r.kvmap("metadata")}
	case OpMetadataIndex:
		v = &MetadataIndex{Offset: r.u64("offset", "off"), Length: r.u64("length", "size"), Name: r.str("name")}
	case OpSummaryOffset:
		v = &SummaryOffset{GroupOpcode: r.u8("group_opcode", "op"), GroupStart: r.u64("group_start", "off"), GroupLength: r.u64("group_length", "size")}
	case OpDataEnd:
		v = &DataEnd{DataSectionCRC: r.u32("data_section_crc", "crc")}
	case OpChunk:
		c := &Chunk{MessageStartTime: r.u64("message_start_time", "time"), MessageEndTime: r.u64("message_end_time", "time"),
			UncompressedSize: r.u64("uncompressed_size", "size"), UncompressedCRC: r.u32("uncompressed_crc", "crc"), Compression: r.str("compression")}
		n := r.u64("records.len", "len")
		c.RecordsOff = base + int64(r.p)
		c.Records = r.bytesN("records", n)
		v = c
	default:
		return &Unknown{}, 0, nil
	}
	if r.err != nil {
		return nil, r.p, fmt.Errorf("%s: %w", OpName(op), r.err)
	}
	return v, r.p, nil
}

// Decompress decodes a chunk's stored bytes.
func Decompress(compression string, stored []byte, uncompressedSize uint64, custom map[string]Decompressor) ([]byte, error) {
	switch compression {
	case "":
		return stored, nil
	case "zstd":
		// hostile frames may declare any content size: the reference decoder only ever
		// sees small files, so cap what it may allocate
		d, err := zstd.NewReader(nil, zstd.WithDecoderConcurrency(1), zstd.WithDecoderMaxMemory(256<<20))
		if err != nil {
			return nil, err
		}
		defer d.Close()
		return d.DecodeAll(stored, nil)
	case "lz4":
		return io.ReadAll(lz4.NewReader(bytes.NewReader(stored)))
	default:
		if f, ok := custom[compression]; ok {
			return f(stored, uncompressedSize)
		}
		return nil, fmt.Errorf("unknown compression %q", compression)
	}
}

// splitRecords cuts b into records. base is added to offsets.
func splitRecords(b []byte, base int64, chunk int, withFields bool) ([]*Record, error) {
	var out []*Record
	p := 0
	for p < len(b) {
		if len(b)-p < 9 {
			return out, fmt.Errorf("trailing %d bytes at %d are not a record", len(b)-p, base+int64(p))
		}
		op := b[p]
		n := binary.LittleEndian.Uint64(b[p+1:])
		if n > uint64(len(b)-p-9) {
			return out, fmt.Errorf("%s record at %d has length %d, only %d bytes remain", OpName(op), base+int64(p), n, len(b)-p-9)
		}
		r := &Record{Op: op, Off: base + int64(p), BodyLen: n, Body: b[p+9 : p+9+int(n)], Chunk: chunk}
		var fp *[]Field
		if withFields {
			r.Fields = []Field{{Name: "opcode", Off: r.Off, Width: 1, Kind: "op"}, {Name: "record_length", Off: r.Off + 1, Width: 8, Kind: "reclen"}}
			fp = &r.Fields
		}
		v, used, err := ParseBody(op, r.Body, r.Off+9, fp)
		if err != nil {
			return out, fmt.Errorf("at %d: %w", r.Off, err)
		}
		if op == 0 {
			return out, fmt.Errorf("opcode 0 at %d", r.Off)
		}
		r.V = v
		r.Used = used
		out = append(out, r)
		p += 9 + int(n)
	}
	return out, nil
}

var ErrNotMCAP = errors.New("refmcap: not a complete MCAP file")

// Decode decodes a complete file. Structural problems at the framing level are
// returned as an error; semantic problems are left to Validate.
func Decode(img []byte, opt DecodeOptions) (*File, error) {
	f := &File{Size: int64(len(img)), DataEndIdx: -1, FooterIdx: -1}
	start := 0
	if !opt.SkipMagic {
		if len(img) < 8 || !bytes.Equal(img[:8], Magic) {
			return nil, fmt.Errorf("%w: bad leading magic", ErrNotMCAP)
		}
		start = 8
	}
	if len(img) < start+8 || !bytes.Equal(img[len(img)-8:], Magic) {
		return nil, fmt.Errorf("%w: bad trailing magic", ErrNotMCAP)
	}
	f.HasMagicEnd = true
	recs, err := splitRecords(img[start:len(img)-8], int64(start), -1, true)
	if err != nil {
		return nil, err
	}
	f.Records = recs
	for i, r := range recs {
		switch r.Op {
		case OpDataEnd:
			if f.DataEndIdx < 0 {
				f.DataEndIdx = i
			}
		case OpFooter:
			f.FooterIdx = i
		case OpChunk:
			c := r.V.(*Chunk)
			c.Decompressed, c.DecompErr = Decompress(c.Compression, c.Records, c.UncompressedSize, opt.Custom)
			if c.DecompErr == nil {
				c.Inner, c.InnerErr = splitRecords(c.Decompressed, 0, i, true)
			}
		}
	}
	return f, nil
}

// Flat returns all records in logical stream order: top-level records with
// each chunk replaced by its inner records.
func (f *File) Flat() []*Record {
	var out []*Record
	for _, r := range f.Records {
		if r.Op == OpChunk {
			out = append(out, r.V.(*Chunk).Inner...)
			continue
		}
		out = append(out, r)
	}
	return out
}
