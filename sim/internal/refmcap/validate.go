package refmcap

import (
	"fmt"
	"hash/crc32"
	"sort"
)

// Issue is one deviation from the specification.
type Issue struct {
	Clause string
	Detail string
}

func issue(list *[]Issue, clause, format string, a ...any) {
	*list = append(*list, Issue{Clause: clause, Detail: fmt.Sprintf(format, a...)})
}

// Validate checks grammar and every pointer of a decoded file against the
// bytes it designates (website/docs/spec/index.md).
func Validate(f *File) []Issue {
	var out []Issue
	recs := f.Records
	if len(recs) == 0 || recs[0].Op != OpHeader {
		issue(&out, "grammar:header_first", "first record is not a Header")
	}
	if f.DataEndIdx < 0 {
		issue(&out, "grammar:dataend_last", "no DataEnd record")
		return out
	}
	if f.FooterIdx != len(recs)-1 {
		issue(&out, "grammar:footer", "Footer is not the last record (index %d of %d)", f.FooterIdx, len(recs))
		return out
	}
	// ---- data section ------------------------------------------------------
	schemas := map[uint16]bool{}
	channels := map[uint16]uint16{}
	haveChannel := map[uint16]bool{}
	checkStream := func(r *Record, where string) {
		switch v := r.V.(type) {
		case *Schema:
			if v.ID == 0 {
				issue(&out, "grammar:schema_id_zero", "schema with id 0 at %s %d", where, r.Off)
			}
			schemas[v.ID] = true
		case *Channel:
			if v.SchemaID != 0 && !schemas[v.SchemaID] {
				issue(&out, "grammar:channel_before_schema", "channel %d at %s %d refers to schema %d not seen before", v.ID, where, r.Off, v.SchemaID)
			}
			channels[v.ID] = v.SchemaID
			haveChannel[v.ID] = true
		case *Message:
			if !haveChannel[v.ChannelID] {
				issue(&out, "grammar:msg_before_channel", "message on channel %d at %s %d before its channel record", v.ChannelID, where, r.Off)
			}
		}
	}
	type chunkInfo struct {
		idx      int
		rec      *Record
		c        *Chunk
		miStart  int64
		miEnd    int64
		mi       []*Record
		channels map[uint16][]*Record // messages per channel
	}
	var chunks []*chunkInfo
	chunkAt := map[int64]*chunkInfo{}
	var attachments, metadata []*Record
	var cur *chunkInfo // chunk whose message-index run is still open
	for i := 1; i < f.DataEndIdx; i++ {
		r := recs[i]
		if r.Op != OpMessageIndex {
			cur = nil
		}
		switch r.Op {
		case OpHeader:
			issue(&out, "grammar:header_first", "second Header at %d", r.Off)
		case OpSchema, OpChannel, OpMessage:
			checkStream(r, "offset")
		case OpChunk:
			c := r.V.(*Chunk)
			ci := &chunkInfo{idx: i, rec: r, c: c, miStart: r.End(), miEnd: r.End(), channels: map[uint16][]*Record{}}
			chunks = append(chunks, ci)
			chunkAt[r.Off] = ci
			cur = ci
			if c.DecompErr != nil {
				issue(&out, "grammar:chunk_content", "chunk at %d does not decompress: %v", r.Off, c.DecompErr)
				continue
			}
			if c.InnerErr != nil {
				issue(&out, "grammar:chunk_content", "chunk at %d: %v", r.Off, c.InnerErr)
			}
			if uint64(len(c.Decompressed)) != c.UncompressedSize {
				issue(&out, "pointer:chunk.uncompressed_size", "chunk at %d declares uncompressed_size %d, decompresses to %d", r.Off, c.UncompressedSize, len(c.Decompressed))
			}
			var minT, maxT uint64
			n := 0
			for _, in := range c.Inner {
				switch in.Op {
				case OpSchema, OpChannel, OpMessage:
					checkStream(in, fmt.Sprintf("chunk@%d+", r.Off))
				default:
					issue(&out, "grammar:chunk_content", "chunk at %d contains a %s record", r.Off, OpName(in.Op))
				}
				if m, ok := in.V.(*Message); ok {
					if n == 0 || m.LogTime < minT {
						minT = m.LogTime
					}
					if n == 0 || m.LogTime > maxT {
						maxT = m.LogTime
					}
					n++
					ci.channels[m.ChannelID] = append(ci.channels[m.ChannelID], in)
				}
			}
			if c.MessageStartTime != minT || c.MessageEndTime != maxT {
				issue(&out, "pointer:chunk.times", "chunk at %d declares times [%d,%d], messages span [%d,%d] (n=%d)", r.Off, c.MessageStartTime, c.MessageEndTime, minT, maxT, n)
			}
		case OpMessageIndex:
			if cur == nil {
				issue(&out, "grammar:message_index_placement", "MessageIndex at %d does not immediately follow a chunk", r.Off)
				continue
			}
			cur.mi = append(cur.mi, r)
			cur.miEnd = r.End()
		case OpAttachment:
			attachments = append(attachments, r)
		case OpMetadata:
			metadata = append(metadata, r)
		case OpChunkIndex, OpAttachmentIndex, OpMetadataIndex, OpStatistics, OpSummaryOffset, OpFooter, OpDataEnd:
			issue(&out, "grammar:data_section", "%s record at %d inside the data section", OpName(r.Op), r.Off)
		}
	}
	// message indexes vs chunk content
	for _, ci := range chunks {
		seen := map[uint16]bool{}
		for _, mr := range ci.mi {
			mi := mr.V.(*MessageIndex)
			if seen[mi.ChannelID] {
				issue(&out, "pointer:message_index.duplicate", "two MessageIndex records for channel %d after chunk at %d", mi.ChannelID, ci.rec.Off)
			}
			seen[mi.ChannelID] = true
			msgs := ci.channels[mi.ChannelID]
			if len(msgs) != len(mi.Entries) {
				issue(&out, "pointer:message_index.count", "MessageIndex at %d for channel %d has %d entries, chunk has %d messages on it", mr.Off, mi.ChannelID, len(mi.Entries), len(msgs))
			}
			byOff := map[int64]*Record{}
			for _, m := range msgs {
				byOff[m.Off] = m
			}
			used := map[int64]bool{}
			for _, e := range mi.Entries {
				m, ok := byOff[int64(e.Offset)]
				if !ok {
					issue(&out, "pointer:message_index.offset", "MessageIndex at %d: entry offset %d is not a message of channel %d in chunk at %d", mr.Off, e.Offset, mi.ChannelID, ci.rec.Off)
					continue
				}
				if used[int64(e.Offset)] {
					issue(&out, "pointer:message_index.offset", "MessageIndex at %d: offset %d listed twice", mr.Off, e.Offset)
				}
				used[int64(e.Offset)] = true
				if m.V.(*Message).LogTime != e.LogTime {
					issue(&out, "pointer:message_index.log_time", "MessageIndex at %d: entry (%d,%d) but message there has log_time %d", mr.Off, e.LogTime, e.Offset, m.V.(*Message).LogTime)
				}
			}
		}
		if len(ci.mi) > 0 {
			for ch := range ci.channels {
				if !seen[ch] {
					issue(&out, "pointer:message_index.missing", "chunk at %d has messages on channel %d but no MessageIndex record for it", ci.rec.Off, ch)
				}
			}
		}
	}
	// ---- summary section -------------------------------------------------
	type group struct {
		op     byte
		start  int64
		length int64
	}
	var groups []group
	seenOp := map[byte]bool{}
	i := f.DataEndIdx + 1
	summaryFirst := int64(-1)
	var chunkIndexes, attIndexes, mdIndexes []*Record
	sumSchemas := map[uint16]bool{}
	for ; i < len(recs) && recs[i].Op != OpSummaryOffset && recs[i].Op != OpFooter; i++ {
		r := recs[i]
		if summaryFirst < 0 {
			summaryFirst = r.Off
		}
		switch r.Op {
		case OpSchema, OpChannel, OpChunkIndex, OpAttachmentIndex, OpMetadataIndex, OpStatistics:
		default:
			if r.Op < 0x80 {
				issue(&out, "grammar:summary_content", "%s record at %d in the summary section", OpName(r.Op), r.Off)
			}
		}
		if len(groups) > 0 && groups[len(groups)-1].op == r.Op {
			groups[len(groups)-1].length += r.End() - r.Off
		} else {
			if seenOp[r.Op] {
				issue(&out, "grammar:summary_grouping", "%s records in the summary are not contiguous (again at %d)", OpName(r.Op), r.Off)
			}
			seenOp[r.Op] = true
			groups = append(groups, group{r.Op, r.Off, r.End() - r.Off})
		}
		switch v := r.V.(type) {
		case *Schema:
			sumSchemas[v.ID] = true
		case *Channel:
			_ = v
		case *ChunkIndex:
			chunkIndexes = append(chunkIndexes, r)
		case *AttachmentIndex:
			attIndexes = append(attIndexes, r)
		case *MetadataIndex:
			mdIndexes = append(mdIndexes, r)
		}
	}
	offsetFirst := int64(-1)
	var offsets []*Record
	for ; i < len(recs) && recs[i].Op == OpSummaryOffset; i++ {
		if offsetFirst < 0 {
			offsetFirst = recs[i].Off
		}
		offsets = append(offsets, recs[i])
	}
	if i != f.FooterIdx {
		issue(&out, "grammar:summary_offset_section", "unexpected %s record at %d between summary offsets and footer", OpName(recs[i].Op), recs[i].Off)
	}
	footerRec := recs[f.FooterIdx]
	footer := footerRec.V.(*Footer)
	// footer pointers
	if summaryFirst < 0 {
		if footer.SummaryStart != 0 {
			issue(&out, "pointer:footer.summary_start", "summary_start=%d but the summary section is empty", footer.SummaryStart)
		}
	} else if int64(footer.SummaryStart) != summaryFirst {
		issue(&out, "pointer:footer.summary_start", "summary_start=%d, first summary record is at %d", footer.SummaryStart, summaryFirst)
	}
	if offsetFirst < 0 {
		// empty offset section: 0, or the position where it would begin (the footer)
		if footer.SummaryOffsetStart != 0 && int64(footer.SummaryOffsetStart) != footerRec.Off {
			issue(&out, "pointer:footer.summary_offset_start", "summary_offset_start=%d but there are no SummaryOffset records (footer at %d)", footer.SummaryOffsetStart, footerRec.Off)
		}
	} else if int64(footer.SummaryOffsetStart) != offsetFirst {
		issue(&out, "pointer:footer.summary_offset_start", "summary_offset_start=%d, first SummaryOffset is at %d", footer.SummaryOffsetStart, offsetFirst)
	}
	// summary offsets tile the groups exactly
	if len(offsets) > 0 {
		byOp := map[byte]group{}
		for _, g := range groups {
			byOp[g.op] = g
		}
		seenSO := map[byte]bool{}
		for _, r := range offsets {
			so := r.V.(*SummaryOffset)
			g, ok := byOp[so.GroupOpcode]
			if !ok {
				issue(&out, "pointer:summary_offset.group_opcode", "SummaryOffset at %d names opcode 0x%02x which has no group", r.Off, so.GroupOpcode)
				continue
			}
			if seenSO[so.GroupOpcode] {
				issue(&out, "pointer:summary_offset.duplicate", "two SummaryOffset records for opcode 0x%02x", so.GroupOpcode)
			}
			seenSO[so.GroupOpcode] = true
			if int64(so.GroupStart) != g.start {
				issue(&out, "pointer:summary_offset.group_start", "SummaryOffset for %s: group_start=%d, group begins at %d", OpName(so.GroupOpcode), so.GroupStart, g.start)
			}
			if int64(so.GroupLength) != g.length {
				issue(&out, "pointer:summary_offset.group_length", "SummaryOffset for %s: group_length=%d, group spans %d bytes", OpName(so.GroupOpcode), so.GroupLength, g.length)
			}
		}
		for _, g := range groups {
			if !seenSO[g.op] && g.op <= OpDataEnd {
				issue(&out, "pointer:summary_offset.missing", "summary group %s at %d has no SummaryOffset record", OpName(g.op), g.start)
			}
		}
	}
	// chunk indexes
	if len(chunkIndexes) > 0 {
		if len(chunkIndexes) != len(chunks) {
			issue(&out, "pointer:chunk_index.count", "%d ChunkIndex records for %d chunks", len(chunkIndexes), len(chunks))
		}
		used := map[int64]bool{}
		for _, r := range chunkIndexes {
			x := r.V.(*ChunkIndex)
			ci, ok := chunkAt[int64(x.ChunkStartOffset)]
			if !ok {
				issue(&out, "pointer:chunk_index.chunk_start_offset", "ChunkIndex at %d: no chunk record starts at %d", r.Off, x.ChunkStartOffset)
				continue
			}
			if used[ci.rec.Off] {
				issue(&out, "pointer:chunk_index.duplicate", "two ChunkIndex records for chunk at %d", ci.rec.Off)
			}
			used[ci.rec.Off] = true
			if int64(x.ChunkLength) != ci.rec.End()-ci.rec.Off {
				issue(&out, "pointer:chunk_index.chunk_length", "ChunkIndex for chunk at %d: chunk_length=%d, record is %d bytes", ci.rec.Off, x.ChunkLength, ci.rec.End()-ci.rec.Off)
			}
			if x.MessageStartTime != ci.c.MessageStartTime || x.MessageEndTime != ci.c.MessageEndTime {
				issue(&out, "pointer:chunk_index.times", "ChunkIndex for chunk at %d: times [%d,%d], chunk says [%d,%d]", ci.rec.Off, x.MessageStartTime, x.MessageEndTime, ci.c.MessageStartTime, ci.c.MessageEndTime)
			}
			if x.Compression != ci.c.Compression {
				issue(&out, "pointer:chunk_index.compression", "ChunkIndex for chunk at %d: compression %q, chunk says %q", ci.rec.Off, x.Compression, ci.c.Compression)
			}
			if x.CompressedSize != uint64(len(ci.c.Records)) {
				issue(&out, "pointer:chunk_index.compressed_size", "ChunkIndex for chunk at %d: compressed_size=%d, records field is %d bytes", ci.rec.Off, x.CompressedSize, len(ci.c.Records))
			}
			if x.UncompressedSize != ci.c.UncompressedSize || (ci.c.DecompErr == nil && x.UncompressedSize != uint64(len(ci.c.Decompressed))) {
				issue(&out, "pointer:chunk_index.uncompressed_size", "ChunkIndex for chunk at %d: uncompressed_size=%d, chunk says %d (decompressed %d)", ci.rec.Off, x.UncompressedSize, ci.c.UncompressedSize, len(ci.c.Decompressed))
			}
			if int64(x.MessageIndexLength) != ci.miEnd-ci.miStart {
				issue(&out, "pointer:chunk_index.message_index_length", "ChunkIndex for chunk at %d: message_index_length=%d, message index records span %d bytes", ci.rec.Off, x.MessageIndexLength, ci.miEnd-ci.miStart)
			}
			miAt := map[int64]*MessageIndex{}
			for _, mr := range ci.mi {
				miAt[mr.Off] = mr.V.(*MessageIndex)
			}
			seenCh := map[uint16]bool{}
			for _, co := range x.MessageIndexOffsets {
				mi, ok := miAt[int64(co.Offset)]
				if !ok {
					issue(&out, "pointer:chunk_index.message_index_offsets", "ChunkIndex for chunk at %d: channel %d -> %d is not a MessageIndex record after that chunk", ci.rec.Off, co.ChannelID, co.Offset)
					continue
				}
				if mi.ChannelID != co.ChannelID {
					issue(&out, "pointer:chunk_index.message_index_offsets", "ChunkIndex for chunk at %d: channel %d -> MessageIndex of channel %d", ci.rec.Off, co.ChannelID, mi.ChannelID)
				}
				if seenCh[co.ChannelID] {
					issue(&out, "pointer:chunk_index.message_index_offsets", "ChunkIndex for chunk at %d lists channel %d twice", ci.rec.Off, co.ChannelID)
				}
				seenCh[co.ChannelID] = true
			}
			if len(x.MessageIndexOffsets) != len(ci.mi) {
				issue(&out, "pointer:chunk_index.message_index_offsets", "ChunkIndex for chunk at %d lists %d message indexes, %d records follow the chunk", ci.rec.Off, len(x.MessageIndexOffsets), len(ci.mi))
			}
		}
	}
	// attachment indexes
	if len(attIndexes) > 0 {
		if len(attIndexes) != len(attachments) {
			issue(&out, "pointer:attachment_index.count", "%d AttachmentIndex records for %d attachments", len(attIndexes), len(attachments))
		}
		at := map[int64]*Record{}
		for _, a := range attachments {
			at[a.Off] = a
		}
		used := map[int64]bool{}
		for _, r := range attIndexes {
			x := r.V.(*AttachmentIndex)
			ar, ok := at[int64(x.Offset)]
			if !ok {
				issue(&out, "pointer:attachment_index.offset", "AttachmentIndex at %d: no attachment record starts at %d", r.Off, x.Offset)
				continue
			}
			if used[ar.Off] {
				issue(&out, "pointer:attachment_index.duplicate", "two AttachmentIndex records for attachment at %d", ar.Off)
			}
			used[ar.Off] = true
			a := ar.V.(*Attachment)
			if int64(x.Length) != ar.End()-ar.Off {
				issue(&out, "pointer:attachment_index.length", "AttachmentIndex for attachment at %d: length=%d, record is %d bytes", ar.Off, x.Length, ar.End()-ar.Off)
			}
			if x.LogTime != a.LogTime || x.CreateTime != a.CreateTime {
				issue(&out, "pointer:attachment_index.times", "AttachmentIndex for attachment at %d: times (%d,%d) vs (%d,%d)", ar.Off, x.LogTime, x.CreateTime, a.LogTime, a.CreateTime)
			}
			if x.DataSize != uint64(len(a.Data)) {
				issue(&out, "pointer:attachment_index.data_size", "AttachmentIndex for attachment at %d: data_size=%d, data is %d bytes", ar.Off, x.DataSize, len(a.Data))
			}
			if x.Name != a.Name || x.MediaType != a.MediaType {
				issue(&out, "pointer:attachment_index.name", "AttachmentIndex for attachment at %d: name/media (%q,%q) vs (%q,%q)", ar.Off, x.Name, x.MediaType, a.Name, a.MediaType)
			}
		}
	}
	// metadata indexes
	if len(mdIndexes) > 0 {
		if len(mdIndexes) != len(metadata) {
			issue(&out, "pointer:metadata_index.count", "%d MetadataIndex records for %d metadata records", len(mdIndexes), len(metadata))
		}
		at := map[int64]*Record{}
		for _, m := range metadata {
			at[m.Off] = m
		}
		used := map[int64]bool{}
		for _, r := range mdIndexes {
			x := r.V.(*MetadataIndex)
			mr, ok := at[int64(x.Offset)]
			if !ok {
				issue(&out, "pointer:metadata_index.offset", "MetadataIndex at %d: no metadata record starts at %d", r.Off, x.Offset)
				continue
			}
			if used[mr.Off] {
				issue(&out, "pointer:metadata_index.duplicate", "two MetadataIndex records for metadata at %d", mr.Off)
			}
			used[mr.Off] = true
			if int64(x.Length) != mr.End()-mr.Off {
				issue(&out, "pointer:metadata_index.length", "MetadataIndex for metadata at %d: length=%d, record is %d bytes", mr.Off, x.Length, mr.End()-mr.Off)
			}
			if x.Name != mr.V.(*Metadata).Name {
				issue(&out, "pointer:metadata_index.name", "MetadataIndex for metadata at %d: name %q vs %q", mr.Off, x.Name, mr.V.(*Metadata).Name)
			}
		}
	}
	sort.SliceStable(out, func(i, j int) bool { return out[i].Clause < out[j].Clause })
	return out
}

// CheckCRCs recomputes every CRC from the file bytes. includeCRC says whether
// the producer was asked to emit data/summary/chunk CRCs.
func CheckCRCs(img []byte, f *File, includeCRC bool) (issues []Issue, zeroTrue int) {
	if f.DataEndIdx < 0 || f.FooterIdx < 0 {
		issue(&issues, "data_crc", "file has no DataEnd/Footer")
		return
	}
	chk := func(clause string, stored, want uint32, what string) {
		if includeCRC {
			if stored != want {
				if want == 0 {
					zeroTrue++
				}
				issue(&issues, clause, "%s: stored %08x, recomputed %08x", what, stored, want)
			}
		} else if stored != 0 {
			issue(&issues, "crc_disabled_nonzero", "%s: checksums disabled but stored %08x", what, stored)
		}
	}
	de := f.Records[f.DataEndIdx]
	chk("data_crc", de.V.(*DataEnd).DataSectionCRC, crc32.ChecksumIEEE(img[:de.Off]), "data_section_crc")
	fr := f.Records[f.FooterIdx]
	chk("summary_crc", fr.V.(*Footer).SummaryCRC, crc32.ChecksumIEEE(img[de.End():fr.Off+1+8+8+8]), "summary_crc")
	for _, r := range f.Records {
		switch v := r.V.(type) {
		case *Chunk:
			if v.DecompErr == nil {
				chk("chunk_crc", v.UncompressedCRC, crc32.ChecksumIEEE(v.Decompressed), fmt.Sprintf("chunk at %d uncompressed_crc", r.Off))
			}
		case *Attachment:
			want := crc32.ChecksumIEEE(r.Body[:r.Used-4])
			if v.CRC != want {
				issue(&issues, "attachment_crc", "attachment at %d: stored %08x, recomputed %08x", r.Off, v.CRC, want)
			}
		}
	}
	return
}
