package runner

import (
	"encoding/json"
	"hash/fnv"
	"os"
	"sort"
	"sync/atomic"
	"time"

	"verif/sim/internal/scen"
)

// Stats is what one batch measured; batches are merged by the parent.
type Stats struct {
	Scenarios   int64            `json:"scenarios"`   // scenarios generated and executed
	Evaluations int64            `json:"evaluations"` // single executions (one per scenario x fault x reader)
	Counters    map[string]int64 `json:"counters"`
	Distinct    []uint64         `json:"distinct"` // hashes of distinct non-trivial cases
	Samples     []any            `json:"samples"`
	EventHash   uint64           `json:"event_hash"`
	KnownHits   map[string]int64 `json:"known_hits,omitempty"`
	KnownSample map[string]any   `json:"known_sample,omitempty"`

	distinct map[uint64]struct{}
	scenHash uint64

	// what is executing right now, for the watchdog (not serialised)
	curFault    *scen.Fault
	curMode     string
	progress    atomic.Int64
	progressCPU atomic.Int64
	inflight    *os.File
}

// InFlight records, outside the process (a file the parent reads if this
// process dies), the scenario about to be executed. Used by properties whose
// failure mode kills the process.
func (s *Stats) InFlight(sc any) {
	if s.inflight == nil {
		path := os.Getenv("VERIF_INFLIGHT_FILE")
		if path == "" {
			return
		}
		f, err := os.OpenFile(path, os.O_CREATE|os.O_WRONLY|os.O_TRUNC, 0o644)
		if err != nil {
			return
		}
		s.inflight = f
	}
	b, err := json.Marshal(sc)
	if err != nil {
		return
	}
	_ = s.inflight.Truncate(0)
	_, _ = s.inflight.WriteAt(b, 0)
}

// Doing tells the watchdog which concrete fault / reader mode is being run.
func (s *Stats) Doing(f *scen.Fault, mode string) {
	s.curFault, s.curMode = f, mode
	s.progress.Store(time.Now().UnixNano())
	s.progressCPU.Store(int64(processCPU()))
}

func NewStats() *Stats {
	return &Stats{Counters: map[string]int64{}, KnownHits: map[string]int64{}, KnownSample: map[string]any{}, distinct: map[uint64]struct{}{}}
}

func (s *Stats) Add(name string, n int64) { s.Counters[name] += n }
func (s *Stats) Inc(name string)          { s.Counters[name]++ }

func hash64(str string) uint64 {
	h := fnv.New64a()
	h.Write([]byte(str))
	return h.Sum64()
}

// DistinctCase records a non-trivial case by its class key.
func (s *Stats) DistinctCase(key string) {
	s.distinct[hash64(key)] = struct{}{}
}

// Event folds an observation into the event-log hash of the current scenario
// (order-sensitive within a scenario).
func (s *Stats) Event(vals ...uint64) {
	s.scenHash = scen.Mix(append([]uint64{s.scenHash}, vals...)...)
}

func (s *Stats) EventStr(str string) { s.Event(hash64(str)) }

// EndScenario folds the scenario hash into the batch hash (commutative so that
// shrinking order does not matter to the determinism self-test).
func (s *Stats) EndScenario() {
	s.EventHash += s.scenHash
	s.scenHash = 0
}

// Sample keeps the first few scenarios, JSON-round-tripped.
func (s *Stats) Sample(v any, max int) {
	if len(s.Samples) >= max {
		return
	}
	b, err := json.Marshal(v)
	if err != nil {
		return
	}
	var out any
	_ = json.Unmarshal(b, &out)
	s.Samples = append(s.Samples, out)
}

func (s *Stats) finish() {
	s.Distinct = s.Distinct[:0]
	for h := range s.distinct {
		s.Distinct = append(s.Distinct, h)
	}
	sort.Slice(s.Distinct, func(i, j int) bool { return s.Distinct[i] < s.Distinct[j] })
}

// Merge folds o into s (used by the parent, in batch-index order).
func (s *Stats) Merge(o *Stats, maxSamples int) {
	s.Scenarios += o.Scenarios
	s.Evaluations += o.Evaluations
	for k, v := range o.Counters {
		s.Counters[k] += v
	}
	for _, h := range o.Distinct {
		s.distinct[h] = struct{}{}
	}
	for _, smp := range o.Samples {
		if len(s.Samples) < maxSamples {
			s.Samples = append(s.Samples, smp)
		}
	}
	for k, v := range o.KnownHits {
		s.KnownHits[k] += v
		if _, ok := s.KnownSample[k]; !ok {
			s.KnownSample[k] = o.KnownSample[k]
		}
	}
	s.EventHash += o.EventHash
}

func (s *Stats) DistinctCount() int { return len(s.distinct) }
