package runner

import (
	"encoding/json"
	"os"
	"path/filepath"
	"sort"
	"strings"
)

// Components lists what ran real code and what was simulated, per property.
var Components = map[string]map[string][]string{}

func writeEvidence(cfg RunConfig, p Prop, st *Stats, seeds []uint64, done, planned, skipped int, wall float64, violations int, replay string) error {
	faults := map[string]int64{}
	probes := map[string]int64{}
	events := map[string]int64{}
	regions := map[string]int64{}
	other := map[string]int64{}
	for k, v := range st.Counters {
		switch {
		case strings.HasPrefix(k, "fault."):
			faults[strings.TrimPrefix(k, "fault.")] = v
		case strings.HasPrefix(k, "probe."):
			probes[strings.TrimPrefix(k, "probe.")] = v
		case strings.HasPrefix(k, "event."):
			events[strings.TrimPrefix(k, "event.")] = v
		case strings.HasPrefix(k, "region."):
			regions[strings.TrimPrefix(k, "region.")] = v
		default:
			other[k] = v
		}
	}
	samples := st.Samples
	if len(samples) == 0 {
		samples = []any{"(no scenario was generated)"}
	}
	runsPerHour := 0.0
	if wall > 0 {
		runsPerHour = float64(st.Evaluations) / wall * 3600
	}
	comp := Components[p.ID()]
	if comp == nil {
		comp = map[string][]string{
			"real":      {"go/mcap (writer, lexer, readers) built from /repo's working tree", "klauspost/compress zstd", "pierrec/lz4"},
			"simulated": {"disk: sink (append-only, journaled), source (delivery policy, fault plan), stored image"},
			"stub":      {},
		}
	}
	cov := map[string]any{
		"evaluations":                     st.Evaluations,
		"distinct_nontrivial":             st.DistinctCount(),
		"rule":                            p.Rule(),
		"samples":                         samples,
		"exhaustive":                      false,
		"scenarios":                       st.Scenarios,
		"simulated_runs":                  st.Evaluations,
		"runs_per_hour":                   runsPerHour,
		"seeds":                           seeds,
		"batches_done":                    done,
		"batches_planned":                 planned,
		"batches_skipped_for_wall_budget": skipped,
		"simulated_time":                  "0 - nothing in go/mcap or go/ros reads a clock; progress is measured in simulator events",
		"simulator_events":                events,
		"faults_fired":                    faults,
		"fault_regions":                   regions,
		"probes":                          probes,
		"counters":                        other,
		"components":                      comp,
		"event_hash":                      st.EventHash,
		"known_finding_hits":              st.KnownHits,
	}
	if replay != "" {
		cov["replay"] = replay
	}
	ev := map[string]any{
		"property_id": p.ID(),
		"tier":        cfg.Tier,
		"seed":        int64(cfg.VerifSeed & 0x7fffffffffffffff),
		"level":       p.Level(),
		"coverage":    cov,
		"assumptions": p.Assumptions(),
		"wall_s":      wall,
		"violations":  violations,
	}
	dir := filepath.Join(cfg.VerifDir, "evidence")
	if d := os.Getenv("VERIF_EVIDENCE_DIR"); d != "" {
		dir = d // mutation drills must not overwrite the evidence of the real tree
	}
	if err := os.MkdirAll(dir, 0o755); err != nil {
		return err
	}
	b, err := json.MarshalIndent(ev, "", " ")
	if err != nil {
		return err
	}
	return os.WriteFile(filepath.Join(dir, p.ID()+".json"), b, 0o644)
}

func sortedKeys(m map[string]int64) []string {
	var out []string
	for k := range m {
		out = append(out, k)
	}
	sort.Strings(out)
	return out
}
