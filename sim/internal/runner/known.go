package runner

import (
	"encoding/json"
	"fmt"
	"os"
	"regexp"
	"strings"
)

// KnownEntry is one entry of /verif/known_findings.json. status "fixed"
// entries match nothing. A "known" entry must be narrower than its clause: it
// needs at least one of detail_regex / scenario_regex.
type KnownEntry struct {
	ID            string `json:"id"`
	Status        string `json:"status"` // "known" | "fixed"
	Property      string `json:"property"`
	Clause        string `json:"clause"`
	DetailRegex   string `json:"detail_regex,omitempty"`
	ScenarioRegex string `json:"scenario_regex,omitempty"` // matched against the scenario JSON
	What          string `json:"what"`
	Commit        string `json:"commit,omitempty"`

	detailRE, scenRE *regexp.Regexp
}

type KnownFindings struct {
	Entries []*KnownEntry
}

func LoadKnown(path string) (*KnownFindings, error) {
	kf := &KnownFindings{}
	b, err := os.ReadFile(path)
	if err != nil {
		if os.IsNotExist(err) {
			return kf, nil
		}
		return nil, err
	}
	if err := json.Unmarshal(b, &kf.Entries); err != nil {
		return nil, err
	}
	for _, e := range kf.Entries {
		switch e.Status {
		case "fixed":
			continue
		case "known":
		default:
			return nil, fmt.Errorf("entry %s: bad status %q", e.ID, e.Status)
		}
		if e.Property == "" || e.Clause == "" || (e.DetailRegex == "" && e.ScenarioRegex == "") {
			return nil, fmt.Errorf("entry %s: a known finding needs property, clause and a detail_regex or scenario_regex narrower than the clause", e.ID)
		}
		if e.DetailRegex != "" {
			if e.detailRE, err = regexp.Compile(e.DetailRegex); err != nil {
				return nil, fmt.Errorf("entry %s: %v", e.ID, err)
			}
		}
		if e.ScenarioRegex != "" {
			if e.scenRE, err = regexp.Compile(e.ScenarioRegex); err != nil {
				return nil, fmt.Errorf("entry %s: %v", e.ID, err)
			}
		}
	}
	return kf, nil
}

func (k *KnownFindings) ByID(id string) *KnownEntry {
	for _, e := range k.Entries {
		if e.ID == id {
			return e
		}
	}
	return &KnownEntry{ID: id, What: "?"}
}

// Match returns the id of the known finding that covers v, or "".
func (k *KnownFindings) Match(v *Violation) string {
	if k == nil {
		return ""
	}
	var scenJSON string
	for _, e := range k.Entries {
		if e.Status != "known" || e.Property != v.Property {
			continue
		}
		if e.Clause != v.Clause && !(strings.HasSuffix(e.Clause, "*") && strings.HasPrefix(v.Clause, strings.TrimSuffix(e.Clause, "*"))) {
			continue
		}
		if e.detailRE != nil && !e.detailRE.MatchString(v.Detail) {
			continue
		}
		if e.scenRE != nil {
			if scenJSON == "" {
				b, _ := json.Marshal(v.Scenario)
				scenJSON = string(b)
			}
			if !e.scenRE.MatchString(scenJSON) {
				continue
			}
		}
		return e.ID
	}
	return ""
}
