// Package runner is the search engine of the simulator: it cuts work into
// batches, derives one rapid seed per batch from VERIF_SEED, runs batches in
// isolated child processes, merges their measurements by batch index, turns a
// failure into a minimised replay file, verifies that the replay reproduces in a
// fresh process, and writes the evidence file.
package runner

import (
	"encoding/json"
	"flag"
	"fmt"
	"os"
	"os/exec"
	"path/filepath"
	"regexp"
	"runtime"
	"runtime/debug"
	"sort"
	"strconv"
	"strings"
	"sync"
	"syscall"
	"testing"
	"time"

	"pgregory.net/rapid"
	"verif/sim/internal/drive"
	"verif/sim/internal/scen"
)

// Scenario is the pure-data description of one simulated run.
type Scenario struct {
	Prop     string          `json:"prop"`
	Cfg      *scen.Cfg       `json:"cfg,omitempty"`
	WL       *scen.Workload  `json:"workload,omitempty"`
	Delivery *scen.Delivery  `json:"delivery,omitempty"`
	Fault    *scen.Fault     `json:"fault,omitempty"`
	Lex      *drive.LexSpec  `json:"lex,omitempty"`
	Read     *drive.ReadSpec `json:"read,omitempty"`
	Mode     string          `json:"mode,omitempty"`
	Extra    json.RawMessage `json:"extra,omitempty"`
	Tier     string          `json:"tier,omitempty"`
	// Procs is GOMAXPROCS of the run (klauspost/zstd picks synchronous or
	// goroutine-based decoding from it); replay restores it.
	Procs int `json:"gomaxprocs,omitempty"`
}

// Violation is a property violation found by a check.
type Violation struct {
	Property string    `json:"property"`
	Clause   string    `json:"clause"`
	Detail   string    `json:"detail"`
	Scenario *Scenario `json:"scenario"`
}

func (v *Violation) Sig() string { return v.Property + "/" + v.Clause }

// Prop is one property check.
type Prop interface {
	ID() string
	// Level is the evidence level: "exploration" or "fault_enumeration".
	Level() string
	// Rule describes generation and the distinct/non-trivial rule.
	Rule() string
	Assumptions() []string
	// Batches and ChecksPerBatch size the tiers.
	Batches(tier string) int
	ChecksPerBatch(tier string) int
	// Draw draws a scenario from rapid.
	Draw(t *rapid.T, tier string) *Scenario
	// Check executes a scenario. When sc.Fault is nil and the property
	// enumerates faults, it enumerates; a returned violation carries the
	// concrete fault in its scenario. pin, when non-empty, restricts reported
	// violations to that clause (used while shrinking).
	Check(sc *Scenario, st *Stats, pin string) *Violation
}

// Sweeper is implemented by properties that also run a deterministic,
// seed-free enumeration; batch indexes below SweepBatches run Sweep.
type Sweeper interface {
	SweepBatches(tier string) int
	Sweep(tier string, batch int, verifSeed uint64, st *Stats) *Violation
}

var registry = map[string]Prop{}

func Register(p Prop) { registry[p.ID()] = p }

func Lookup(id string) (Prop, bool) { p, ok := registry[id]; return p, ok }

func IDs() []string {
	var out []string
	for k := range registry {
		out = append(out, k)
	}
	sort.Strings(out)
	return out
}

// ---- seeds -----------------------------------------------------------------

func BatchSeed(verifSeed uint64, prop string, batch int) uint64 {
	return scen.Mix(verifSeed, hash64(prop), uint64(batch)) | 1
}

func VerifSeed() uint64 {
	if s := os.Getenv("VERIF_SEED"); s != "" {
		if v, err := strconv.ParseUint(s, 10, 64); err == nil {
			return v
		}
		if v, err := strconv.ParseInt(s, 10, 64); err == nil {
			return uint64(v)
		}
		return hash64(s)
	}
	return 1
}

// ---- rapid glue --------------------------------------------------------------

type quietTB struct {
	failed bool
	logs   []string
}

func (q *quietTB) Helper()                  {}
func (q *quietTB) Name() string             { return "mcapsim" }
func (q *quietTB) Logf(f string, a ...any)  { q.logs = append(q.logs, fmt.Sprintf(f, a...)) }
func (q *quietTB) Log(a ...any)             { q.logs = append(q.logs, fmt.Sprint(a...)) }
func (q *quietTB) Skipf(f string, a ...any) {}
func (q *quietTB) Skip(a ...any)            {}
func (q *quietTB) SkipNow()                 {}
func (q *quietTB) Errorf(f string, a ...any) {
	q.failed = true
	q.logs = append(q.logs, fmt.Sprintf(f, a...))
}
func (q *quietTB) Error(a ...any) { q.failed = true; q.logs = append(q.logs, fmt.Sprint(a...)) }
func (q *quietTB) Fatalf(f string, a ...any) {
	q.failed = true
	q.logs = append(q.logs, fmt.Sprintf(f, a...))
}
func (q *quietTB) Fatal(a ...any) { q.failed = true; q.logs = append(q.logs, fmt.Sprint(a...)) }
func (q *quietTB) FailNow()       { q.failed = true }
func (q *quietTB) Fail()          { q.failed = true }
func (q *quietTB) Failed() bool   { return q.failed }

var rapidInit sync.Once

func initRapid() {
	rapidInit.Do(func() {
		testing.Init()
		_ = flag.CommandLine.Parse(nil)
		_ = flag.Set("rapid.nofailfile", "true")
	})
}

// BatchResult is what a batch child prints as JSON.
type BatchResult struct {
	Prop      string     `json:"prop"`
	Batch     int        `json:"batch"`
	RapidSeed uint64     `json:"rapid_seed"`
	Stats     *Stats     `json:"stats"`
	Violation *Violation `json:"violation,omitempty"`
	Harness   string     `json:"harness_error,omitempty"`
	WallS     float64    `json:"wall_s"`
}

// RunBatch runs one batch in this process.
// Preparer is implemented by properties that must configure the process
// (e.g. cap its address space) before anything runs.
type Preparer interface{ Prepare() }

func RunBatch(p Prop, tier string, verifSeed uint64, batch int, known *KnownFindings) *BatchResult {
	initRapid()
	if pr, ok := p.(Preparer); ok {
		pr.Prepare()
	}
	seed := BatchSeed(verifSeed, p.ID(), batch)
	_ = flag.Set("rapid.seed", strconv.FormatUint(seed, 10))
	checks := p.ChecksPerBatch(tier)
	if n, err := strconv.Atoi(os.Getenv("VERIF_CHECKS")); err == nil && n > 0 {
		checks = n // e.g. the slow -race run of C13
	}
	_ = flag.Set("rapid.checks", strconv.Itoa(checks))
	if d := os.Getenv("VERIF_SHRINKTIME"); d != "" {
		_ = flag.Set("rapid.shrinktime", d)
	} else {
		_ = flag.Set("rapid.shrinktime", "40s")
	}
	st := NewStats()
	res := &BatchResult{Prop: p.ID(), Batch: batch, RapidSeed: seed, Stats: st}
	start := time.Now()
	var last *Violation
	pin := ""
	var pinAt time.Time
	shrinkBudget := 75 * time.Second
	if tier == "thorough" {
		shrinkBudget = 3 * time.Minute
	}
	tb := &quietTB{}
	harness := ""
	wd := newWatchdog(watchdogLimit(tier))
	if sw, ok := p.(Sweeper); ok && batch < sw.SweepBatches(tier) {
		func() {
			defer func() {
				if r := recover(); r != nil {
					harness = fmt.Sprintf("harness panic in sweep: %v\n%s", r, debug.Stack())
				}
			}()
			if v := sw.Sweep(tier, batch, verifSeed, st); v != nil {
				v.Property = p.ID()
				if v.Scenario != nil {
					v.Scenario.Prop, v.Scenario.Tier, v.Scenario.Procs = p.ID(), tier, runtime.GOMAXPROCS(0)
				}
				if id := known.Match(v); id != "" {
					st.KnownHits[id]++
					st.KnownSample[id] = v
				} else {
					res.Violation = v
				}
			}
		}()
		res.WallS = time.Since(start).Seconds()
		st.finish()
		res.Harness = harness
		return res
	}
	func() {
		defer func() {
			if r := recover(); r != nil {
				harness = fmt.Sprintf("harness panic outside property: %v", r)
			}
		}()
		rapid.Check(tb, func(t *rapid.T) {
			// rapid looks at its shrink deadline only between blocks, and minimising one block
			// can take a hundred evaluations; with a change that makes evaluations slow (a
			// lexer handing out garbage up to the token budget at every cut) that ran for
			// 45 minutes. Past the budget every further candidate is declined unevaluated;
			// the smallest failing scenario seen so far is the one reported.
			if pin != "" && time.Since(pinAt) > shrinkBudget {
				st.Inc("harness.shrink_candidates_declined")
				return
			}
			sc := p.Draw(t, tier)
			sc.Prop = p.ID()
			sc.Tier = tier
			sc.Procs = runtime.GOMAXPROCS(0)
			st.Scenarios++
			st.Doing(nil, "")
			wd.arm(sc, st, p.ID(), batch, seed)
			defer wd.disarm()
			if pin == "" {
				st.Sample(sc, 3)
			}
			v := p.Check(sc, st, pin)
			st.EndScenario()
			if v == nil {
				return
			}
			v.Property = p.ID()
			if v.Scenario == nil {
				v.Scenario = sc
			}
			if id := known.Match(v); id != "" {
				st.KnownHits[id]++
				if _, ok := st.KnownSample[id]; !ok {
					st.KnownSample[id] = v
				}
				return
			}
			if os.Getenv("VERIF_COLLECT") != "" {
				// survey mode (development aid): record every distinct clause, keep searching
				id := "collect:" + v.Clause
				st.KnownHits[id]++
				if _, ok := st.KnownSample[id]; !ok {
					st.KnownSample[id] = v
				}
				return
			}
			if pin == "" {
				pin = v.Clause
				pinAt = time.Now()
			}
			if v.Clause != pin {
				return
			}
			last = v
			t.Fatalf("VIOLATION %s: %s", v.Clause, v.Detail)
		})
	}()
	res.WallS = time.Since(start).Seconds()
	st.finish()
	if harness != "" {
		res.Harness = harness
		return res
	}
	if tb.failed {
		if last == nil {
			res.Harness = "rapid reported a failure without a violation (harness panic?): " + strings.Join(tb.logs, " | ")
			if len(res.Harness) > 4000 {
				res.Harness = res.Harness[:4000]
			}
			return res
		}
		res.Violation = last
	}
	return res
}

// ---- replay files ------------------------------------------------------------

type ReplayFile struct {
	Property  string    `json:"property"`
	Clause    string    `json:"clause"`
	Detail    string    `json:"detail"`
	VerifSeed uint64    `json:"verif_seed"`
	Batch     int       `json:"batch"`
	RapidSeed uint64    `json:"rapid_seed"`
	RepoRev   string    `json:"repo_rev"`
	Scenario  *Scenario `json:"scenario"`
}

// Replay re-executes a replay file; returns the violation found (nil if none).
func Replay(path string) (*ReplayFile, *Violation, error) {
	b, err := os.ReadFile(path)
	if err != nil {
		return nil, nil, err
	}
	var rf ReplayFile
	if err := json.Unmarshal(b, &rf); err != nil {
		return nil, nil, err
	}
	p, ok := Lookup(rf.Property)
	if !ok {
		return &rf, nil, fmt.Errorf("unknown property %s", rf.Property)
	}
	if rf.Scenario.Procs > 0 {
		runtime.GOMAXPROCS(rf.Scenario.Procs)
	}
	if pr, ok := p.(Preparer); ok {
		pr.Prepare()
	}
	st := NewStats()
	pin := rf.Clause
	if pin == "fatal" || pin == "race_report" {
		// the process died in the original run; whatever the scenario shows in a fresh
		// process (e.g. the oversized allocation that later ran it out of memory) counts
		pin = ""
	}
	v := p.Check(rf.Scenario, st, pin)
	if v != nil {
		v.Property = rf.Property
	}
	return &rf, v, nil
}

// ---- parent ------------------------------------------------------------------

type RunConfig struct {
	Prop      string
	Tier      string
	VerifSeed uint64
	Workers   int
	VerifDir  string // /verif
	Self      string // path of this binary
	RepoRev   string
	MaxWall   time.Duration
	Seeds     []uint64
	Quiet     bool
}

type batchJob struct {
	seed  uint64
	batch int
}

// RunProperty runs all batches of a property; returns the process exit code.
func RunProperty(cfg RunConfig) int {
	p, ok := Lookup(cfg.Prop)
	if !ok {
		fmt.Fprintf(os.Stderr, "unknown property %s\n", cfg.Prop)
		return 2
	}
	known, err := LoadKnown(filepath.Join(cfg.VerifDir, "known_findings.json"))
	if err != nil {
		fmt.Fprintf(os.Stderr, "known_findings.json: %v\n", err)
		return 2
	}
	start := time.Now()
	seeds := cfg.Seeds
	if len(seeds) == 0 {
		seeds = []uint64{cfg.VerifSeed}
	}
	fmt.Printf("mcapsim: property=%s tier=%s VERIF_SEED=%d seeds=%v workers=%d repo_rev=%s\n", cfg.Prop, cfg.Tier, cfg.VerifSeed, seeds, cfg.Workers, cfg.RepoRev)
	nb := p.Batches(cfg.Tier)
	var jobs []batchJob
	for _, s := range seeds {
		for b := 0; b < nb; b++ {
			jobs = append(jobs, batchJob{s, b})
		}
	}
	results := make([]*BatchResult, len(jobs))
	var mu sync.Mutex
	next := 0
	skipped := 0
	var wg sync.WaitGroup
	stop := false
	for w := 0; w < cfg.Workers; w++ {
		wg.Add(1)
		go func() {
			defer wg.Done()
			for {
				mu.Lock()
				if next >= len(jobs) || stop {
					mu.Unlock()
					return
				}
				if cfg.MaxWall > 0 && time.Since(start) > cfg.MaxWall {
					skipped = len(jobs) - next
					next = len(jobs)
					mu.Unlock()
					return
				}
				i := next
				next++
				mu.Unlock()
				r := runBatchChild(cfg, jobs[i])
				mu.Lock()
				results[i] = r
				if r.Violation != nil || r.Harness != "" {
					stop = true
				}
				mu.Unlock()
			}
		}()
	}
	wg.Wait()
	total := NewStats()
	var firstV *BatchResult
	var firstVJob batchJob
	harness := ""
	done := 0
	for i, r := range results {
		if r == nil {
			continue
		}
		done++
		total.Merge(r.Stats, 6)
		if r.Harness != "" && harness == "" {
			harness = fmt.Sprintf("batch %d (seed %d): %s", r.Batch, jobs[i].seed, r.Harness)
		}
		if r.Violation != nil && firstV == nil {
			firstV = r
			firstVJob = jobs[i]
		}
	}
	wall := time.Since(start).Seconds()
	exit := 0
	violations := 0
	replayPath := ""
	if harness != "" {
		fmt.Printf("HARNESS-ERROR property=%s %s\n", cfg.Prop, harness)
		exit = 2
	}
	if firstV != nil && exit == 0 {
		violations = 1
		v := firstV.Violation
		dir := filepath.Join(cfg.VerifDir, "replays")
		_ = os.MkdirAll(dir, 0o755)
		replayPath = filepath.Join(dir, fmt.Sprintf("%s-%d-%d.json", cfg.Prop, firstVJob.seed, firstV.Batch))
		if os.Getenv("VERIF_EVIDENCE_DIR") != "" {
			// a drill against a scratch tree may run next to another one: keep their files apart
			replayPath = filepath.Join(dir, fmt.Sprintf("%s-%d-%d.drill%d.json", cfg.Prop, firstVJob.seed, firstV.Batch, os.Getpid()))
		}
		rf := ReplayFile{Property: cfg.Prop, Clause: v.Clause, Detail: v.Detail, VerifSeed: firstVJob.seed, Batch: firstV.Batch, RapidSeed: firstV.RapidSeed, RepoRev: cfg.RepoRev, Scenario: v.Scenario}
		b, _ := json.MarshalIndent(rf, "", " ")
		if err := os.WriteFile(replayPath, b, 0o644); err != nil {
			fmt.Printf("HARNESS-ERROR property=%s cannot write replay file: %v\n", cfg.Prop, err)
			exit = 2
		} else {
			// the replay must reproduce in a fresh process before it is reported
			out, code := runSelf(cfg.Self, 10*time.Minute, "replay", replayPath)
			if code == 1 && v.Clause == "fatal" && strings.Contains(out, "DIFFERENT ") {
				// the process died in the batch (state left by earlier inputs), and the same
				// scenario shows a definite violation of another clause in a fresh process:
				// report that one
				if m := regexp.MustCompile(`now clause=(\S+) detail=(.*)`).FindStringSubmatch(out); m != nil {
					rf.Clause, rf.Detail = m[1], strings.TrimSpace(m[2])
					v.Clause, v.Detail = rf.Clause, rf.Detail
					b, _ := json.MarshalIndent(rf, "", " ")
					_ = os.WriteFile(replayPath, b, 0o644)
					out, code = runSelf(cfg.Self, 10*time.Minute, "replay", replayPath)
				}
			}
			unowned := v.Clause == "free_running" || v.Clause == "race_report"
			// map_order is decided by repetition (Go's map iteration order cannot be seeded): a
			// replay may need another attempt too, but unlike the unowned clauses it is only
			// reported once it has shown again
			retry := unowned || v.Clause == "map_order"
			for try := 0; retry && try < 4 && !(code == 1 && strings.Contains(out, "REPRODUCED")); try++ {
				// the one clause whose interleaving the simulator does not own (C13 iv):
				// a true positive may need several attempts to show again
				out, code = runSelf(cfg.Self, 10*time.Minute, "replay", replayPath)
			}
			if unowned && !(code == 1 && strings.Contains(out, "REPRODUCED")) {
				fmt.Printf("note: clause %s depends on the OS scheduler; it was observed in the discovering process but did not show again in 5 fresh replays (each with 200 rounds). Results are schedule-independent iff the property holds, so it is reported.\n", v.Clause)
				fmt.Printf("violation: clause=%s detail=%s\n", v.Clause, v.Detail)
				fmt.Printf("VIOLATION property=%s replay=%s\n", cfg.Prop, replayPath)
				exit = 1
			} else if code == 1 && strings.Contains(out, "REPRODUCED") {
				fmt.Printf("violation: clause=%s detail=%s\n", v.Clause, v.Detail)
				fmt.Printf("VIOLATION property=%s replay=%s\n", cfg.Prop, replayPath)
				exit = 1
			} else if v.Clause == "no_termination" && code == 0 && strings.Contains(out, "NOT-REPRODUCED") {
				// the watchdog is a clock: an evaluation that was still running after the limit
				// in a batch process, but returns (and passes) when the same scenario runs alone in
				// a fresh process under the longer replay limit, was slow - typically many large
				// permitted allocations on an overloaded machine - not a call that never returns
				fmt.Printf("note: one evaluation of batch %d exceeded the watchdog limit but the same scenario terminates and passes in a fresh process (%s); counted as slow, not as a violation\n", firstV.Batch, replayPath)
				total.Inc("harness.slow_evaluation_terminated_on_replay")
				violations, replayPath = 0, ""
			} else {
				fmt.Printf("HARNESS-ERROR property=%s violation %s did not reproduce from %s in a fresh process (exit %d): %s\n", cfg.Prop, v.Clause, replayPath, code, lastLines(out, 5))
				exit = 2
			}
		}
	}
	// known findings
	var kfIDs []string
	for id := range total.KnownHits {
		kfIDs = append(kfIDs, id)
	}
	sort.Strings(kfIDs)
	for _, id := range kfIDs {
		if strings.HasPrefix(id, "collect:") {
			d := ""
			if v, ok := total.KnownSample[id].(map[string]any); ok {
				d = fmt.Sprint(v["detail"])
			} else if v, ok := total.KnownSample[id].(*Violation); ok {
				d = v.Detail
			}
			fmt.Printf("COLLECTED %s hits=%d sample: %s\n", id, total.KnownHits[id], d)
			continue
		}
		e := known.ByID(id)
		fmt.Printf("KNOWN-FINDING: property=%s %s [%s] hits=%d\n", cfg.Prop, e.What, id, total.KnownHits[id])
	}
	// zero probes are warnings
	var zero []string
	for k, v := range total.Counters {
		if strings.HasPrefix(k, "probe.") && v == 0 {
			zero = append(zero, k)
		}
	}
	sort.Strings(zero)
	for _, k := range zero {
		fmt.Printf("warning: %s never hit\n", k)
	}
	if exit != 2 {
		if err := writeEvidence(cfg, p, total, seeds, done, len(jobs), skipped, wall, violations, replayPath); err != nil {
			fmt.Printf("HARNESS-ERROR property=%s cannot write evidence: %v\n", cfg.Prop, err)
			exit = 2
		}
	}
	fmt.Printf("mcapsim: property=%s tier=%s scenarios=%d evaluations=%d distinct=%d batches=%d/%d wall=%.1fs event_hash=%016x exit=%d\n",
		cfg.Prop, cfg.Tier, total.Scenarios, total.Evaluations, total.DistinctCount(), done, len(jobs), wall, total.EventHash, exit)
	return exit
}

func lastLines(s string, n int) string {
	lines := strings.Split(strings.TrimSpace(s), "\n")
	if len(lines) > n {
		lines = lines[len(lines)-n:]
	}
	return strings.Join(lines, " | ")
}

func runSelf(self string, timeout time.Duration, args ...string) (string, int) {
	return runSelfEnv(self, timeout, nil, args...)
}

func runSelfEnv(self string, timeout time.Duration, env []string, args ...string) (string, int) {
	cmd := exec.Command(self, args...)
	cmd.Env = append(os.Environ(), env...)
	var sb strings.Builder
	cmd.Stdout = &sb
	cmd.Stderr = &sb
	if err := cmd.Start(); err != nil {
		return err.Error(), 2
	}
	done := make(chan error, 1)
	go func() { done <- cmd.Wait() }()
	select {
	case err := <-done:
		if err == nil {
			return sb.String(), 0
		}
		if ee, ok := err.(*exec.ExitError); ok {
			return sb.String(), ee.ExitCode()
		}
		return sb.String() + err.Error(), 2
	case <-time.After(timeout):
		_ = cmd.Process.Kill()
		<-done
		return sb.String() + "\n(timeout)", 3
	}
}

var jsonLine = regexp.MustCompile(`(?m)^BATCH-RESULT (.*)$`)

func runBatchChild(cfg RunConfig, job batchJob) *BatchResult {
	args := []string{"batch", "--prop", cfg.Prop, "--tier", cfg.Tier, "--seed", strconv.FormatUint(job.seed, 10), "--batch", strconv.Itoa(job.batch), "--verif", cfg.VerifDir}
	// zstd sizes its worker pools from GOMAXPROCS: alternate between the
	// synchronous (1) and the goroutine-based (2) decoder paths, as a pure
	// function of the batch index
	env := "GOMAXPROCS=" + strconv.Itoa(1+job.batch%2)
	if os.Getenv("VERIF_GOMAXPROCS") != "" {
		env = "GOMAXPROCS=" + os.Getenv("VERIF_GOMAXPROCS")
	}
	inflight := filepath.Join(cfg.VerifDir, ".build", fmt.Sprintf("inflight.%d.%s.%d.%d", os.Getpid(), cfg.Prop, job.seed, job.batch))
	_ = os.Remove(inflight)
	defer os.Remove(inflight)
	out, code := runSelfEnv(cfg.Self, 45*time.Minute, []string{env, "VERIF_INFLIGHT_FILE=" + inflight, "VERIF_BATCH_INDEX=" + strconv.Itoa(job.batch)}, args...)
	m := jsonLine.FindStringSubmatch(out)
	if m == nil {
		// the child died: if it had announced what it was about to run, that is a
		// process-fatal outcome of that scenario
		if b, err := os.ReadFile(inflight); err == nil && len(b) > 0 {
			var sc Scenario
			if json.Unmarshal(b, &sc) == nil {
				sc.Prop = cfg.Prop
				if code == 66 {
					return &BatchResult{Prop: cfg.Prop, Batch: job.batch, Stats: NewStats(), Violation: &Violation{Property: cfg.Prop, Clause: "race_report", Detail: "the race detector ended the process while this scenario ran: " + raceSummary(out), Scenario: &sc}}
				}
				return &BatchResult{Prop: cfg.Prop, Batch: job.batch, Stats: NewStats(), Violation: &Violation{Property: cfg.Prop, Clause: "fatal", Detail: fmt.Sprintf("the process died (exit %d) while running this input: %s", code, fatalClass(out)), Scenario: &sc}}
			}
		}
		return &BatchResult{Prop: cfg.Prop, Batch: job.batch, Stats: NewStats(), Harness: fmt.Sprintf("batch child exit %d without result: %s", code, lastLines(out, 8))}
	}
	var r BatchResult
	if err := json.Unmarshal([]byte(m[1]), &r); err != nil {
		return &BatchResult{Prop: cfg.Prop, Batch: job.batch, Stats: NewStats(), Harness: "bad batch result: " + err.Error()}
	}
	if r.Stats == nil {
		r.Stats = NewStats()
	}
	if r.Stats.Counters == nil {
		r.Stats.Counters = map[string]int64{}
	}
	return &r
}

// ---- watchdog ------------------------------------------------------------------

// A scenario that does not finish within the limit is reported as a
// no_termination violation of the property (the library looped or blocked
// under the injected fault); the batch child prints its result and exits.
type watchdog struct {
	mu    sync.Mutex
	limit time.Duration
	timer *time.Timer
}

func watchdogLimit(tier string) time.Duration {
	if d, err := time.ParseDuration(os.Getenv("VERIF_WATCHDOG")); err == nil && d > 0 {
		return d
	}
	if tier == "quick" {
		return 4 * time.Minute
	}
	return 10 * time.Minute
}

func newWatchdog(limit time.Duration) *watchdog { return &watchdog{limit: limit} }

func (w *watchdog) arm(sc *Scenario, st *Stats, prop string, batch int, seed uint64) {
	w.mu.Lock()
	defer w.mu.Unlock()
	if w.timer != nil {
		w.timer.Stop()
	}
	st.progress.Store(time.Now().UnixNano())
	st.progressCPU.Store(int64(processCPU()))
	var fire func()
	fire = func() {
		// the limit applies to one evaluation: Doing() marks progress
		idle := time.Duration(time.Now().UnixNano() - st.progress.Load())
		// the limit is meant in CPU time of this process, so that a loaded machine
		// cannot cause an alarm: fire only if the evaluation has also consumed at least
		// limit/2 of CPU since it started (a busy loop), or has been silent for 20x the
		// limit (blocked forever)
		cpu := processCPU() - time.Duration(st.progressCPU.Load())
		if idle < w.limit || (cpu < w.limit/2 && idle < 20*w.limit) {
			w.mu.Lock()
			if w.timer != nil {
				next := w.limit / 4
				if idle < w.limit {
					next = w.limit - idle + time.Second
				}
				w.timer = time.AfterFunc(next, fire)
			}
			w.mu.Unlock()
			return
		}
		cp := *sc
		if st.curFault != nil {
			f := *st.curFault
			cp.Fault = &f
		}
		if st.curMode != "" {
			cp.Mode = st.curMode
		}
		v := &Violation{Property: prop, Clause: "no_termination", Detail: fmt.Sprintf("one evaluation still running after %v (library call does not return)", idle.Round(time.Second)), Scenario: &cp}
		res := &BatchResult{Prop: prop, Batch: batch, RapidSeed: seed, Stats: NewStats(), Violation: v}
		b, _ := json.Marshal(res)
		fmt.Printf("BATCH-RESULT %s\n", b)
		os.Exit(0)
	}
	w.timer = time.AfterFunc(w.limit, fire)
}

func (w *watchdog) disarm() {
	w.mu.Lock()
	defer w.mu.Unlock()
	if w.timer != nil {
		w.timer.Stop()
		w.timer = nil
	}
}

// ReplayWithWatchdog is Replay with the same no_termination rule.
func ReplayWithWatchdog(path string) (*ReplayFile, *Violation, error) {
	type out struct {
		rf  *ReplayFile
		v   *Violation
		err error
	}
	ch := make(chan out, 1)
	go func() {
		rf, v, err := Replay(path)
		ch <- out{rf, v, err}
	}()
	select {
	case o := <-ch:
		return o.rf, o.v, o.err
	case <-time.After(watchdogLimit("thorough")):
		b, err := os.ReadFile(path)
		if err != nil {
			return nil, nil, err
		}
		var rf ReplayFile
		if err := json.Unmarshal(b, &rf); err != nil {
			return nil, nil, err
		}
		return &rf, &Violation{Property: rf.Property, Clause: "no_termination", Detail: fmt.Sprintf("scenario still running after %v (library call does not return)", watchdogLimit("thorough")), Scenario: rf.Scenario}, nil
	}
}

// fatalClass extracts the line that says why a Go process died.
func fatalClass(out string) string {
	for _, l := range strings.Split(out, "\n") {
		if strings.HasPrefix(l, "fatal error:") || strings.HasPrefix(l, "runtime:") || strings.HasPrefix(l, "panic:") || strings.Contains(l, "signal:") || strings.Contains(l, "stack overflow") {
			if len(l) > 200 {
				l = l[:200]
			}
			return l
		}
	}
	return lastLines(out, 2)
}

// processCPU is the CPU time (user + system) this process has consumed.
func processCPU() time.Duration {
	var ru syscall.Rusage
	if err := syscall.Getrusage(syscall.RUSAGE_SELF, &ru); err != nil {
		return 0
	}
	return time.Duration(ru.Utime.Nano() + ru.Stime.Nano())
}

func raceSummary(out string) string {
	lines := strings.Split(out, "\n")
	var keep []string
	for i, l := range lines {
		if strings.Contains(l, "WARNING: DATA RACE") {
			for j := i; j < len(lines) && j < i+12; j++ {
				if strings.Contains(lines[j], "mcap") || strings.HasPrefix(lines[j], "Write at") || strings.HasPrefix(lines[j], "Previous") || strings.HasPrefix(lines[j], "Read at") {
					keep = append(keep, strings.TrimSpace(lines[j]))
				}
			}
			break
		}
	}
	s := strings.Join(keep, " | ")
	if len(s) > 500 {
		s = s[:500]
	}
	return s
}
