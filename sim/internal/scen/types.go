// Package scen defines the Scenario: pure data from which a simulated run is
// rebuilt exactly. A Scenario never contains anything derived from the code
// under test; replay re-executes the JSON.
package scen

import (
	"encoding/hex"
	"encoding/json"
	"unicode/utf8"
)

// Str is a byte string that survives JSON even when it is not valid UTF-8.
type Str string

func (s Str) MarshalJSON() ([]byte, error) {
	if utf8.ValidString(string(s)) {
		return json.Marshal(string(s))
	}
	return json.Marshal(map[string]string{"hex": hex.EncodeToString([]byte(s))})
}

func (s *Str) UnmarshalJSON(b []byte) error {
	var plain string
	if err := json.Unmarshal(b, &plain); err == nil {
		*s = Str(plain)
		return nil
	}
	var m map[string]string
	if err := json.Unmarshal(b, &m); err != nil {
		return err
	}
	raw, err := hex.DecodeString(m["hex"])
	if err != nil {
		return err
	}
	*s = Str(raw)
	return nil
}

// Blob is a payload. Small payloads are literal; larger ones are expanded
// deterministically from (Len, Tag) so replay files stay small.
type Blob struct {
	Raw []byte `json:"raw,omitempty"`
	Len int    `json:"len,omitempty"`
	Tag uint64 `json:"tag,omitempty"`
}

func splitmix(x *uint64) uint64 {
	*x += 0x9e3779b97f4a7c15
	z := *x
	z = (z ^ (z >> 30)) * 0xbf58476d1ce4e5b9
	z = (z ^ (z >> 27)) * 0x94d049bb133111eb
	return z ^ (z >> 31)
}

// Mix is the harness-wide hash used for every derived (not drawn) choice.
func Mix(vals ...uint64) uint64 {
	var s uint64 = 0x243f6a8885a308d3
	for _, v := range vals {
		s ^= v
		s = splitmix(&s) // the mixed output becomes the state: Mix(1, x, 2) and Mix(3, x, 0) are unrelated
	}
	return splitmix(&s)
}

// Bytes expands the blob. Tag-derived content is half compressible (runs) and
// half noise so compressors see both.
func (b Blob) Bytes() []byte {
	if b.Raw != nil || b.Len == 0 {
		out := make([]byte, len(b.Raw))
		copy(out, b.Raw)
		return out
	}
	out := make([]byte, b.Len)
	s := b.Tag
	for i := 0; i < len(out); {
		r := splitmix(&s)
		if r&1 == 0 {
			// run
			n := int((r>>8)%23) + 1
			c := byte(r >> 16)
			for j := 0; j < n && i < len(out); j++ {
				out[i] = c
				i++
			}
		} else {
			for j := 0; j < 8 && i < len(out); j++ {
				out[i] = byte(r >> (8 * uint(j)))
				i++
			}
		}
	}
	return out
}

func (b Blob) Size() int {
	if b.Raw != nil {
		return len(b.Raw)
	}
	return b.Len
}

// KV is one map entry; the slice order is the *insertion order* used when the
// Go map handed to the library is built.
type KV struct {
	K Str `json:"k"`
	V Str `json:"v"`
}

func MapOf(kvs []KV) map[string]string {
	m := make(map[string]string, len(kvs))
	for _, kv := range kvs {
		m[string(kv.K)] = string(kv.V)
	}
	return m
}

// Cfg mirrors mcap.WriterOptions as data.
type Cfg struct {
	Chunked     bool   `json:"chunked"`
	ChunkSize   int64  `json:"chunk_size"`
	Compression string `json:"compression"` // "", "zstd", "lz4"
	Level       int    `json:"level"`
	Custom      string `json:"custom,omitempty"` // "", "xor", "flate", "nonce"
	IncludeCRC  bool   `json:"include_crc"`

	SkipMessageIndexing      bool `json:"skip_message_indexing,omitempty"`
	SkipStatistics           bool `json:"skip_statistics,omitempty"`
	SkipRepeatedSchemas      bool `json:"skip_repeated_schemas,omitempty"`
	SkipRepeatedChannelInfos bool `json:"skip_repeated_channel_infos,omitempty"`
	SkipAttachmentIndex      bool `json:"skip_attachment_index,omitempty"`
	SkipMetadataIndex        bool `json:"skip_metadata_index,omitempty"`
	SkipChunkIndex           bool `json:"skip_chunk_index,omitempty"`
	SkipSummaryOffsets       bool `json:"skip_summary_offsets,omitempty"`
	OverrideLibrary          bool `json:"override_library,omitempty"`
	SkipMagic                bool `json:"skip_magic,omitempty"`
}

// CompressionName is the compression string that ends up in chunk records.
func (c Cfg) CompressionName() string {
	if !c.Chunked {
		return ""
	}
	if c.Custom != "" {
		return CustomFormat(c.Custom)
	}
	return c.Compression
}

const (
	OpSchema     = "schema"
	OpChannel    = "channel"
	OpMessage    = "message"
	OpAttachment = "attachment"
	OpMetadata   = "metadata"
)

// Op is one writer API call (after WriteHeader, before Close).
type Op struct {
	Kind string `json:"kind"`

	// schema: ID, Name, Encoding, Data
	// channel: ID, SchemaID, Topic, Encoding(message encoding), Meta
	// message: ChannelID, Sequence, LogTime, PublishTime, Data
	// attachment: LogTime, CreateTime(PublishTime), Name, Encoding(media type), Data
	// metadata: Name, Meta
	ID          uint16 `json:"id,omitempty"`
	SchemaID    uint16 `json:"schema_id,omitempty"`
	ChannelID   uint16 `json:"channel_id,omitempty"`
	Sequence    uint32 `json:"sequence,omitempty"`
	LogTime     uint64 `json:"log_time,omitempty"`
	PublishTime uint64 `json:"publish_time,omitempty"`
	Name        Str    `json:"name,omitempty"`
	Topic       Str    `json:"topic,omitempty"`
	Encoding    Str    `json:"encoding,omitempty"`
	Meta        []KV   `json:"meta,omitempty"`
	Data        Blob   `json:"data,omitempty"`
	// Reject marks a call the writer must refuse (unknown channel / schema, schema
	// id 0): it must return an error and leave no trace in the output.
	Reject bool `json:"reject,omitempty"`
}

// Workload is a legal writer call sequence.
type Workload struct {
	Profile Str  `json:"profile"`
	Library Str  `json:"library"`
	Ops     []Op `json:"ops"`
}

// Delivery is a benign read-fragmentation policy.
type Delivery struct {
	Kind string `json:"kind"` // "full", "one_byte", "halving", "hash_sizes", "data_with_eof"
	Seed uint64 `json:"seed,omitempty"`
}

// Fault is one concrete injected fault. Which fields matter depends on Kind.
type Fault struct {
	Kind   string `json:"kind"`
	Off    int64  `json:"off,omitempty"`    // byte offset / truncation length / read-error position
	Bit    int    `json:"bit,omitempty"`    // bit within byte for bit_flip
	Call   int    `json:"call,omitempty"`   // sink write call index / seek call index
	Accept int    `json:"accept,omitempty"` // bytes accepted by a short write
	Sticky bool   `json:"sticky,omitempty"`
	Perm   bool   `json:"perm,omitempty"`
	Bytes  []byte `json:"bytes,omitempty"` // overwrite content
	Off2   int64  `json:"off2,omitempty"`  // swap partner
	Len    int64  `json:"len,omitempty"`   // swap/overwrite length
	Mode   string `json:"mode,omitempty"`  // err delivery mode: "with_data" | "next_call"
}

// CustomFormat is the compression string a simulated custom codec announces.
// One codec has a name longer than 16 characters (chunk headers are usually
// parsed through small fixed buffers).
func CustomFormat(custom string) string {
	if custom == "xorlong" {
		return "x-xor-long-name-18"
	}
	if custom == "byolz4" {
		return "lz4" // a caller-supplied encoder for a format the library also knows
	}
	return "x-" + custom
}
