// Package bagfmt encodes ROS 1 bag files (format 2.0) from a model, written
// from the ROS bag format description (http://wiki.ros.org/Bags/Format/2.0).
// It shares no code with go/ros; selftest cross-checks it against
// foxglove/go-rosbag's independent reader.
package bagfmt

import (
	"bytes"
	"encoding/binary"
	"sort"

	"github.com/pierrec/lz4/v4"
)

var Magic = []byte("#ROSBAG V2.0\n")

const (
	OpMessageData = 0x02
	OpBagHeader   = 0x03
	OpIndexData   = 0x04
	OpChunk       = 0x05
	OpChunkInfo   = 0x06
	OpConnection  = 0x07
)

type KV struct{ K, V string }

// Connection is one bag connection.
type Connection struct {
	ID     uint32 `json:"id"`
	Topic  string `json:"topic"`
	Type   string `json:"type"`
	MD5    string `json:"md5"`
	Def    string `json:"def"`
	Extra  []KV   `json:"extra,omitempty"` // further connection header fields (callerid, latching, ...)
	Repeat int    `json:"repeat,omitempty"`
}

// Message is one message data record.
type Message struct {
	Conn  uint32 `json:"conn"`
	Secs  uint32 `json:"secs"`
	NSecs uint32 `json:"nsecs"`
	Size  int    `json:"size"`
	Seed  uint64 `json:"seed"`
	Zero  bool   `json:"zero,omitempty"` // all-zero (highly compressible) payload
}

// Bytes expands the payload deterministically from (Size, Seed).
func (m Message) Bytes() []byte {
	out := make([]byte, m.Size)
	if m.Zero {
		return out
	}
	x := m.Seed*0x9e3779b97f4a7c15 + 0x2545f4914f6cdd1d
	for i := 0; i < len(out); i += 8 {
		x ^= x << 13
		x ^= x >> 7
		x ^= x << 17
		for j := 0; j < 8 && i+j < len(out); j++ {
			out[i+j] = byte(x >> (8 * uint(j)))
		}
	}
	return out
}

// Bag is the logical content plus layout choices.
type Bag struct {
	Conns       []Connection `json:"conns"`
	Msgs        []Message    `json:"msgs"`
	Chunked     bool         `json:"chunked"`
	Compression string       `json:"compression"` // "none", "lz4"
	PerChunk    int          `json:"per_chunk"`   // messages per chunk
	// ConnAt[i]: index in Msgs before which connection i's record is written
	// (its first appearance; must be <= its first message)
	ConnAt []int `json:"conn_at"`
	// RepeatConnEvery > 0 re-emits all connection records seen so far at the start of every n-th chunk
	RepeatConnEvery int `json:"repeat_conn_every,omitempty"`
}

// Field locates a length or value inside the encoded bag (for corruption).
type Field struct {
	Name string
	Off  int
	W    int
}

type encoder struct {
	buf    bytes.Buffer
	fields []Field
	base   int
	track  bool
}

func le32(v uint32) []byte { return binary.LittleEndian.AppendUint32(nil, v) }
func le64(v uint64) []byte { return binary.LittleEndian.AppendUint64(nil, v) }

func header(fields ...[2][]byte) []byte {
	var b []byte
	for _, f := range fields {
		b = append(b, le32(uint32(len(f[0])+1+len(f[1])))...)
		b = append(b, f[0]...)
		b = append(b, '=')
		b = append(b, f[1]...)
	}
	return b
}

func kv(k string, v []byte) [2][]byte { return [2][]byte{[]byte(k), v} }

// record appends header_len | header | data_len | data, noting field offsets.
func (e *encoder) record(name string, hdr, data []byte) {
	off := e.base + e.buf.Len()
	if e.track {
		e.fields = append(e.fields, Field{name + ".header_len", off, 4})
		// per-field lengths inside the header
		p := 0
		for p+4 <= len(hdr) {
			fl := int(binary.LittleEndian.Uint32(hdr[p:]))
			e.fields = append(e.fields, Field{name + ".field_len", off + 4 + p, 4})
			p += 4 + fl
		}
		e.fields = append(e.fields, Field{name + ".data_len", off + 4 + len(hdr), 4})
	}
	e.buf.Write(le32(uint32(len(hdr))))
	e.buf.Write(hdr)
	e.buf.Write(le32(uint32(len(data))))
	e.buf.Write(data)
}

func connRecord(c Connection) ([]byte, []byte) {
	hdr := header(kv("op", []byte{OpConnection}), kv("conn", le32(c.ID)), kv("topic", []byte(c.Topic)))
	fields := [][2][]byte{kv("topic", []byte(c.Topic)), kv("type", []byte(c.Type)), kv("md5sum", []byte(c.MD5)), kv("message_definition", []byte(c.Def))}
	for _, x := range c.Extra {
		fields = append(fields, kv(x.K, []byte(x.V)))
	}
	return hdr, header(fields...)
}

func msgRecord(m Message) ([]byte, []byte) {
	t := append(le32(m.Secs), le32(m.NSecs)...)
	return header(kv("op", []byte{OpMessageData}), kv("conn", le32(m.Conn)), kv("time", t)), m.Bytes()
}

// Encode returns the bag bytes and the field map of top-level records.
func Encode(b *Bag) ([]byte, []Field) {
	e := &encoder{track: true}
	e.buf.Write(Magic)
	// bag header, padded to 4096 bytes
	nChunks := 0
	hdr := header(kv("op", []byte{OpBagHeader}), kv("index_pos", le64(0)), kv("conn_count", le32(uint32(len(b.Conns)))), kv("chunk_count", le32(0)))
	pad := 4096 - 4 - len(hdr) - 4
	if pad < 0 {
		pad = 0
	}
	e.record("bag_header", hdr, bytes.Repeat([]byte{' '}, pad))
	// order of emission: connection records at their positions, messages in order
	connsAt := map[int][]int{}
	for i := range b.Conns {
		at := 0
		if i < len(b.ConnAt) {
			at = b.ConnAt[i]
		}
		connsAt[at] = append(connsAt[at], i)
	}
	var seen []int
	type chunkInfo struct {
		pos        int
		start, end uint64
		counts     map[uint32]uint32
	}
	var infos []chunkInfo
	per := b.PerChunk
	if per <= 0 {
		per = 1 << 30
	}
	msgOff := make([]int, len(b.Msgs)) // offset of each message record inside its (uncompressed) chunk
	emit := func(inner *encoder, from, to int, repeat bool) {
		if repeat {
			for _, ci := range seen {
				h, d := connRecord(b.Conns[ci])
				inner.record("connection", h, d)
			}
		}
		for i := from; i < to; i++ {
			for _, ci := range connsAt[i] {
				c := b.Conns[ci]
				for r := 0; r <= c.Repeat; r++ {
					h, d := connRecord(c)
					inner.record("connection", h, d)
				}
				seen = append(seen, ci)
			}
			h, d := msgRecord(b.Msgs[i])
			msgOff[i] = inner.buf.Len()
			inner.record("message", h, d)
		}
	}
	trailing := func(inner *encoder) {
		var keys []int
		for k := range connsAt {
			if k >= len(b.Msgs) {
				keys = append(keys, k)
			}
		}
		sort.Ints(keys)
		for _, k := range keys {
			for _, ci := range connsAt[k] {
				h, d := connRecord(b.Conns[ci])
				inner.record("connection", h, d)
				seen = append(seen, ci)
			}
		}
	}
	indexPos := 0
	if !b.Chunked {
		emit(e, 0, len(b.Msgs), false)
		trailing(e)
		indexPos = e.buf.Len()
	} else {
		for from := 0; from < len(b.Msgs) || from == 0; from += per {
			to := from + per
			if to > len(b.Msgs) {
				to = len(b.Msgs)
			}
			inner := &encoder{}
			repeat := b.RepeatConnEvery > 0 && nChunks > 0 && nChunks%b.RepeatConnEvery == 0
			emit(inner, from, to, repeat)
			if to == len(b.Msgs) {
				trailing(inner)
			}
			raw := inner.buf.Bytes()
			stored := raw
			comp := b.Compression
			if comp == "" {
				comp = "none"
			}
			if comp == "lz4" {
				var cb bytes.Buffer
				w := lz4.NewWriter(&cb)
				_, _ = w.Write(raw)
				_ = w.Close()
				stored = cb.Bytes()
			}
			info := chunkInfo{pos: e.buf.Len(), counts: map[uint32]uint32{}}
			for i := from; i < to; i++ {
				m := b.Msgs[i]
				t := uint64(m.Secs)<<32 | uint64(m.NSecs)
				if i == from || t < info.start {
					info.start = t
				}
				if i == from || t > info.end {
					info.end = t
				}
				info.counts[m.Conn]++
			}
			infos = append(infos, info)
			e.record("chunk", header(kv("op", []byte{OpChunk}), kv("compression", []byte(comp)), kv("size", le32(uint32(len(raw))))), stored)
			// index data records for the chunk
			var conns []uint32
			for c := range info.counts {
				conns = append(conns, c)
			}
			sort.Slice(conns, func(i, j int) bool { return conns[i] < conns[j] })
			for _, c := range conns {
				var d []byte
				for i := from; i < to; i++ {
					if b.Msgs[i].Conn == c {
						d = append(d, le32(b.Msgs[i].Secs)...)
						d = append(d, le32(b.Msgs[i].NSecs)...)
						d = append(d, le32(uint32(msgOff[i]))...)
					}
				}
				e.record("index_data", header(kv("op", []byte{OpIndexData}), kv("ver", le32(1)), kv("conn", le32(c)), kv("count", le32(info.counts[c]))), d)
			}
			nChunks++
			if to >= len(b.Msgs) {
				break
			}
		}
		// index section: connection records again, then chunk infos
		indexPos = e.buf.Len()
		for _, c := range b.Conns {
			h, d := connRecord(c)
			e.record("connection", h, d)
		}
		for _, info := range infos {
			var d []byte
			var conns []uint32
			for c := range info.counts {
				conns = append(conns, c)
			}
			sort.Slice(conns, func(i, j int) bool { return conns[i] < conns[j] })
			for _, c := range conns {
				d = append(d, le32(c)...)
				d = append(d, le32(info.counts[c])...)
			}
			e.record("chunk_info", header(kv("op", []byte{OpChunkInfo}), kv("ver", le32(1)), kv("chunk_pos", le64(uint64(info.pos))),
				kv("start_time", append(le32(uint32(info.start>>32)), le32(uint32(info.start))...)), kv("end_time", append(le32(uint32(info.end>>32)), le32(uint32(info.end))...)), kv("count", le32(uint32(len(conns))))), d)
		}
	}
	out := e.buf.Bytes()
	// patch index_pos and chunk_count in the bag header (fixed-width values)
	if i := bytes.Index(out[:200], []byte("index_pos=")); i >= 0 {
		binary.LittleEndian.PutUint64(out[i+len("index_pos="):], uint64(indexPos))
	}
	if i := bytes.Index(out[:200], []byte("chunk_count=")); i >= 0 {
		binary.LittleEndian.PutUint32(out[i+len("chunk_count="):], uint32(nChunks))
	}
	return out, e.fields
}
