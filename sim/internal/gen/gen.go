// Package gen draws scenarios from pgregory.net/rapid, which is the sole
// choice source of the simulator. Generation is swarm style: per scenario a
// set of knobs (enabled op kinds, size classes, time mode, string mode) is
// drawn first, then the ops within them.
package gen

import (
	"fmt"
	"strings"

	"pgregory.net/rapid"
	"verif/sim/internal/scen"
)

// Limits bound a generated workload.
type Limits struct {
	MaxOps        int
	MaxPayload    int  // largest single payload
	MaxTotal      int  // rough cap on the sum of payload bytes
	UTF8Only      bool // restrict strings to valid UTF-8 (cross-language checks)
	NoAttach      bool
	NoMetadata    bool
	MinMessages   int
	NoMaxTime     bool // avoid 2^64-1 timestamps
	NoCustom      bool
	ForceChunked  bool
	ForceIndexed  bool // keep chunk indexes + repeated schemas/channels
	NoCompression bool
	ForceCRC      bool
	SmallTimes    bool
	// CheapCodecs forces the fastest compression level: checks that re-run the
	// writer or reader thousands of times per file cannot afford the table
	// set-up of the high levels (lz4 HC, zstd best)
	CheapCodecs bool
	// Rejects lets the workload contain calls the writer must refuse
	Rejects bool
}

var Quick = Limits{MaxOps: 40, MaxPayload: 3000, MaxTotal: 40000}

func pick[T any](t *rapid.T, label string, vals ...T) T {
	return vals[rapid.IntRange(0, len(vals)-1).Draw(t, label)]
}

var asciiWords = []string{"", "a", "topic", "/camera/image", "example", "ros1msg", "json", "x", "a/b/c", "0"}
var utf8Words = []string{"", "é", "日本語トピック", "𝔘𝔫𝔦𝔠𝔬𝔡𝔢", "naïve/τοπικ", "\u0000nul", "emoji🙂", "a\nb"}
var badWords = []string{"\xff", "ab\xc3", "\xed\xa0\x80", "ok\x80ok"}

func str(t *rapid.T, label string, mode int, utf8only bool) scen.Str {
	switch pick(t, label+".class", 0, 0, 0, 1, 1, 2, 3) {
	case 0:
		return scen.Str(pick(t, label, asciiWords...))
	case 1:
		if mode == 0 {
			return scen.Str(pick(t, label, asciiWords...))
		}
		return scen.Str(pick(t, label, utf8Words...))
	case 2:
		if utf8only || mode < 2 {
			return scen.Str(pick(t, label, utf8Words...))
		}
		return scen.Str(pick(t, label, badWords...))
	default:
		n := pick(t, label+".len", 1, 5, 17, 64, 300)
		base := pick(t, label+".base", "k", "topic_", "ü", "/very/long/")
		out := ""
		for len(out) < n {
			out += base
		}
		return scen.Str(out + fmt.Sprint(rapid.IntRange(0, 9).Draw(t, label+".sfx")))
	}
}

func meta(t *rapid.T, label string, mode int, utf8only bool, many bool) []scen.KV {
	maxN := 3
	if many {
		maxN = 40
	}
	n := rapid.IntRange(0, maxN).Draw(t, label+".n")
	var out []scen.KV
	seen := map[scen.Str]bool{}
	// key families: keys that differ early, only at the 9th byte, only at the very end of a long
	// common prefix, or by length alone (one a prefix of the other)
	family := 0
	if many {
		family = rapid.IntRange(0, 4).Draw(t, label+".family")
	}
	for i := 0; i < n; i++ {
		var k scen.Str
		if many {
			j := rapid.IntRange(0, 200).Draw(t, label+".k")
			switch family {
			case 1:
				k = scen.Str(fmt.Sprintf("sensor_0%d_gain", j%10))
			case 2:
				k = scen.Str(fmt.Sprintf("a/rather/long/common/prefix/of/thirty-two+/%03d", j))
			case 3:
				k = scen.Str(strings.Repeat("k", 1+j%20))
			case 4:
				k = scen.Str(fmt.Sprintf("%03d-key-with-the-difference-in-front", j))
			default:
				k = scen.Str(fmt.Sprintf("key%03d", j))
			}
		} else {
			k = str(t, label+".k", mode, utf8only)
		}
		if seen[k] {
			continue
		}
		seen[k] = true
		out = append(out, scen.KV{K: k, V: str(t, label+".v", mode, utf8only)})
	}
	return out
}

func blob(t *rapid.T, label string, lim Limits, budget *int, tag uint64) scen.Blob {
	class := pick(t, label+".class", 0, 1, 1, 1, 2, 2, 3)
	var n int
	switch class {
	case 0:
		n = 0
	case 1:
		n = rapid.IntRange(1, 16).Draw(t, label+".len")
	case 2:
		n = rapid.IntRange(17, 300).Draw(t, label+".len")
	default:
		n = rapid.IntRange(301, max(301, lim.MaxPayload)).Draw(t, label+".len")
	}
	if n > lim.MaxPayload {
		n = lim.MaxPayload
	}
	if n > *budget {
		n = *budget
	}
	*budget -= n
	if n == 0 {
		return scen.Blob{}
	}
	if n <= 8 {
		raw := make([]byte, n)
		s := tag
		for i := range raw {
			raw[i] = byte(scen.Mix(s, uint64(i)))
		}
		return scen.Blob{Raw: raw}
	}
	return scen.Blob{Len: n, Tag: tag}
}

var extremeTimes = []uint64{0, 1, 1<<63 - 1, 1 << 63, 1<<64 - 2, 1<<64 - 1}

func timestamp(t *rapid.T, label string, mode int, counter *uint64, lim Limits) uint64 {
	var v uint64
	switch mode {
	case 0: // heavy ties on a tiny domain
		v = uint64(rapid.IntRange(0, 3).Draw(t, label))
	case 1: // ascending with jitter and repeats
		*counter += uint64(rapid.IntRange(0, 3).Draw(t, label))
		v = *counter
	case 2: // extremes
		v = pick(t, label, extremeTimes...)
	case 3: // descending
		if *counter == 0 {
			*counter = 1000
		}
		d := uint64(rapid.IntRange(0, 3).Draw(t, label))
		if d > *counter {
			d = *counter
		}
		*counter -= d
		v = *counter
	default: // anything
		switch pick(t, label+".k", 0, 1, 2) {
		case 0:
			v = uint64(rapid.IntRange(0, 50).Draw(t, label))
		case 1:
			v = pick(t, label, extremeTimes...)
		default:
			v = rapid.Uint64().Draw(t, label)
		}
	}
	if lim.NoMaxTime && v == 1<<64-1 {
		v = 1<<64 - 2
	}
	return v
}

var idPool = []uint16{0, 1, 2, 3, 7, 300, 65534, 65535}

// Workload draws a legal writer call sequence.
func Workload(t *rapid.T, lim Limits) scen.Workload {
	strMode := pick(t, "str_mode", 0, 1, 2) // 0 ascii, 1 utf8, 2 may be invalid utf8
	if lim.UTF8Only && strMode == 2 {
		strMode = 1
	}
	timeMode := pick(t, "time_mode", 0, 1, 2, 3, 4)
	if lim.SmallTimes {
		timeMode = pick(t, "time_mode_small", 0, 1, 3)
	}
	enAttach := !lim.NoAttach && rapid.Bool().Draw(t, "en_attach")
	enMeta := !lim.NoMetadata && rapid.Bool().Draw(t, "en_meta")
	enRewrite := rapid.Bool().Draw(t, "en_rewrite")
	enSchemaless := rapid.Bool().Draw(t, "en_schemaless")
	manyMeta := rapid.IntRange(0, 5).Draw(t, "many_meta") == 0
	nOps := 0
	wl := scen.Workload{Profile: str(t, "profile", strMode, lim.UTF8Only), Library: str(t, "library", strMode, lim.UTF8Only)}
	budget := lim.MaxTotal
	var schemaOps, channelOps []scen.Op
	schemaByID := map[uint16]int{}
	channelByID := map[uint16]int{}
	var tcounter uint64
	var seq uint32 = uint32(pick(t, "seq_base", 0, 0, 1, 1<<32-1000))
	nMsgs := 0
	addSchema := func() scen.Op {
		id := pick(t, "schema.id", idPool[1:]...)
		if rapid.IntRange(0, 3).Draw(t, "schema.rnd") == 0 {
			id = uint16(rapid.IntRange(1, 65535).Draw(t, "schema.idr"))
		}
		if i, ok := schemaByID[id]; ok {
			return schemaOps[i]
		}
		op := scen.Op{Kind: scen.OpSchema, ID: id, Name: str(t, "schema.name", strMode, lim.UTF8Only), Encoding: str(t, "schema.enc", strMode, lim.UTF8Only),
			Data: blob(t, "schema.data", lim, &budget, scen.Mix(1, uint64(id)))}
		schemaByID[id] = len(schemaOps)
		schemaOps = append(schemaOps, op)
		return op
	}
	addChannel := func() (scen.Op, bool) {
		id := pick(t, "channel.id", idPool...)
		if rapid.IntRange(0, 3).Draw(t, "channel.rnd") == 0 {
			id = uint16(rapid.IntRange(0, 65535).Draw(t, "channel.idr"))
		}
		if i, ok := channelByID[id]; ok {
			return channelOps[i], true
		}
		var sid uint16
		if len(schemaOps) > 0 && !(enSchemaless && rapid.IntRange(0, 3).Draw(t, "channel.schemaless") == 0) {
			sid = schemaOps[rapid.IntRange(0, len(schemaOps)-1).Draw(t, "channel.schema")].ID
		} else if !enSchemaless && len(schemaOps) == 0 {
			return scen.Op{}, false
		}
		// topics are drawn from a small pool so several channels share one
		topic := scen.Str(pick(t, "channel.topic", "/a", "/b", "/c", "/a", "é/topic", ""))
		if rapid.IntRange(0, 4).Draw(t, "channel.topic.rnd") == 0 {
			topic = str(t, "channel.topicr", strMode, lim.UTF8Only)
		}
		op := scen.Op{Kind: scen.OpChannel, ID: id, SchemaID: sid, Topic: topic, Encoding: str(t, "channel.enc", strMode, lim.UTF8Only),
			Meta: meta(t, "channel.meta", strMode, lim.UTF8Only, manyMeta)}
		channelByID[id] = len(channelOps)
		channelOps = append(channelOps, op)
		return op, true
	}
	enRejects := lim.Rejects && rapid.Bool().Draw(t, "en_rejects")
	_ = nOps
	// The op sequence is a rapid state-machine run: every action is one group of
	// draws, so the minimiser can delete whole ops from a failing sequence.
	full := func() bool { return len(wl.Ops) >= lim.MaxOps }
	ensureChannel := func(t *rapid.T) {
		op, ok := addChannel()
		if !ok {
			wl.Ops = append(wl.Ops, addSchema())
			return
		}
		if !enRewrite && containsOp(wl.Ops, op) {
			return
		}
		// schema must precede: ensure it was written
		if op.SchemaID != 0 && !containsOp(wl.Ops, schemaOps[schemaByID[op.SchemaID]]) {
			wl.Ops = append(wl.Ops, schemaOps[schemaByID[op.SchemaID]])
		}
		wl.Ops = append(wl.Ops, op)
	}
	message := func(t *rapid.T) {
		if full() {
			return
		}
		written := writtenChannels(wl.Ops)
		if len(written) == 0 {
			ensureChannel(t)
			return
		}
		ch := written[rapid.IntRange(0, len(written)-1).Draw(t, "msg.channel")]
		seq++
		nMsgs++
		wl.Ops = append(wl.Ops, scen.Op{Kind: scen.OpMessage, ChannelID: ch, Sequence: seq,
			LogTime: timestamp(t, "msg.log", timeMode, &tcounter, lim), PublishTime: timestamp(t, "msg.pub", 4, &tcounter, lim),
			Data: blob(t, "msg.data", lim, &budget, scen.Mix(5, uint64(seq)))})
	}
	iter := 0
	actions := map[string]func(*rapid.T){
		"schema": func(t *rapid.T) {
			if full() {
				return
			}
			op := addSchema()
			if !enRewrite && containsOp(wl.Ops, op) {
				return
			}
			wl.Ops = append(wl.Ops, op)
		},
		"channel": func(t *rapid.T) {
			if full() {
				return
			}
			ensureChannel(t)
		},
		"message1": message, "message2": message, "message3": message, "message4": message, "message5": message,
	}
	if enAttach {
		actions["attachment"] = func(t *rapid.T) {
			if full() {
				return
			}
			wl.Ops = append(wl.Ops, scen.Op{Kind: scen.OpAttachment, LogTime: timestamp(t, "att.log", 4, &tcounter, lim), PublishTime: timestamp(t, "att.create", 4, &tcounter, lim),
				Name: str(t, "att.name", strMode, lim.UTF8Only), Encoding: str(t, "att.media", strMode, lim.UTF8Only),
				Data: blob(t, "att.data", lim, &budget, scen.Mix(3, uint64(len(wl.Ops))))})
		}
	}
	if enMeta {
		actions["metadata"] = func(t *rapid.T) {
			if full() {
				return
			}
			wl.Ops = append(wl.Ops, scen.Op{Kind: scen.OpMetadata, Name: str(t, "md.name", strMode, lim.UTF8Only), Meta: meta(t, "md.meta", strMode, lim.UTF8Only, manyMeta)})
		}
	}
	if enRejects {
		actions["reject"] = func(t *rapid.T) {
			if full() {
				return
			}
			iter++
			// a call that must be refused and leave no trace
			switch pick(t, "reject.kind", 0, 0, 1, 2) {
			case 0: // message on a channel that was never written
				id := uint16(40000 + rapid.IntRange(0, 9).Draw(t, "reject.ch"))
				if _, ok := channelByID[id]; !ok {
					wl.Ops = append(wl.Ops, scen.Op{Kind: scen.OpMessage, ChannelID: id, Sequence: 4000000 + uint32(iter), LogTime: timestamp(t, "reject.log", timeMode, &tcounter, lim),
						Data: blob(t, "reject.data", lim, &budget, scen.Mix(9, uint64(iter))), Reject: true})
				}
			case 1: // channel referring to an unknown schema
				sid := uint16(41000 + rapid.IntRange(0, 9).Draw(t, "reject.sid"))
				if _, ok := schemaByID[sid]; !ok {
					wl.Ops = append(wl.Ops, scen.Op{Kind: scen.OpChannel, ID: uint16(42000 + iter%100), SchemaID: sid, Topic: "/rejected", Reject: true})
				}
			default: // schema with id 0
				wl.Ops = append(wl.Ops, scen.Op{Kind: scen.OpSchema, ID: 0, Name: "zero", Reject: true})
			}
		}
	}
	t.Repeat(actions)
	if len(wl.Ops) == 0 {
		wl.Ops = append(wl.Ops, addSchema())
	}
	_ = nMsgs
	return wl
}

func containsOp(ops []scen.Op, op scen.Op) bool {
	for _, o := range ops {
		if o.Kind == op.Kind && o.ID == op.ID && !o.Reject {
			return true
		}
	}
	return false
}

func writtenChannels(ops []scen.Op) []uint16 {
	var out []uint16
	seen := map[uint16]bool{}
	for _, o := range ops {
		if o.Kind == scen.OpChannel && !seen[o.ID] && !o.Reject {
			seen[o.ID] = true
			out = append(out, o.ID)
		}
	}
	return out
}

// Cfg draws a writer configuration.
func Cfg(t *rapid.T, lim Limits) scen.Cfg {
	c := scen.Cfg{}
	c.Chunked = lim.ForceChunked || rapid.IntRange(0, 9).Draw(t, "chunked") < 8
	if c.Chunked {
		switch pick(t, "chunk_size.class", 0, 1, 1, 2, 2, 3) {
		case 0:
			c.ChunkSize = 1
		case 1:
			c.ChunkSize = int64(rapid.IntRange(2, 200).Draw(t, "chunk_size"))
		case 2:
			c.ChunkSize = int64(rapid.IntRange(201, 5000).Draw(t, "chunk_size"))
		default:
			c.ChunkSize = pick(t, "chunk_size", int64(1<<20), int64(1<<30), int64(0))
		}
		if !lim.NoCompression {
			// zstd writers are expensive to set up (large tables at the higher
			// levels); they are drawn less often so that a batch explores more
			c.Compression = pick(t, "compression", "", "", "lz4", "lz4", "zstd")
			c.Level = pick(t, "level", 1, 0, 1, 0, 1, 2, 3)
			if lim.CheapCodecs {
				c.Level = 1
			}
			if !lim.NoCustom && rapid.IntRange(0, 9).Draw(t, "custom") == 0 {
				c.Custom = pick(t, "custom.kind", "xor", "flate", "nonce", "eager", "xorlong", "byolz4")
				// a caller-supplied compressor takes precedence over whatever built-in
				// format the options also name
				if rapid.Bool().Draw(t, "custom.keep_builtin") {
					c.Compression = ""
				}
			}
		}
	}
	c.IncludeCRC = lim.ForceCRC || rapid.Bool().Draw(t, "include_crc")
	corner := rapid.IntRange(0, 9).Draw(t, "flag_corner")
	bits := rapid.IntRange(0, 1023).Draw(t, "flags")
	switch corner {
	case 0:
		bits = 0
	case 1:
		bits = 1023
	case 2, 3, 4:
		// sparse: at most two flags
		bits = (1 << uint(rapid.IntRange(0, 9).Draw(t, "flag_a"))) | (1 << uint(rapid.IntRange(0, 9).Draw(t, "flag_b")))
	}
	c.SkipMessageIndexing = bits&1 != 0
	c.SkipStatistics = bits&2 != 0
	c.SkipRepeatedSchemas = bits&4 != 0
	c.SkipRepeatedChannelInfos = bits&8 != 0
	c.SkipAttachmentIndex = bits&16 != 0
	c.SkipMetadataIndex = bits&32 != 0
	c.SkipChunkIndex = bits&64 != 0
	c.SkipSummaryOffsets = bits&128 != 0
	c.OverrideLibrary = bits&256 != 0
	c.SkipMagic = bits&512 != 0
	if lim.ForceIndexed {
		c.SkipRepeatedSchemas = false
		c.SkipRepeatedChannelInfos = false
		c.SkipChunkIndex = false
		c.SkipMagic = false
	}
	return c
}

// Delivery draws a benign delivery policy.
func Delivery(t *rapid.T) scen.Delivery {
	return scen.Delivery{
		Kind: pick(t, "delivery", "full", "full", "one_byte", "halving", "hash_sizes", "hash_sizes_eof", "data_with_eof"),
		Seed: uint64(rapid.IntRange(1, 1<<30).Draw(t, "delivery_seed")),
	}
}

// CfgClass is a coarse class label used for distinctness accounting.
func CfgClass(c scen.Cfg) string {
	comp := c.CompressionName()
	if !c.Chunked {
		comp = "unchunked"
	} else if comp == "" {
		comp = "none"
	}
	cs := "big"
	switch {
	case !c.Chunked:
		cs = "-"
	case c.ChunkSize == 1:
		cs = "1"
	case c.ChunkSize <= 200:
		cs = "s"
	case c.ChunkSize <= 5000:
		cs = "m"
	}
	flags := 0
	for i, b := range []bool{c.SkipMessageIndexing, c.SkipStatistics, c.SkipRepeatedSchemas, c.SkipRepeatedChannelInfos, c.SkipAttachmentIndex, c.SkipMetadataIndex, c.SkipChunkIndex, c.SkipSummaryOffsets, c.OverrideLibrary, c.SkipMagic} {
		if b {
			flags |= 1 << uint(i)
		}
	}
	return fmt.Sprintf("%s/cs=%s/crc=%v/f=%03x", comp, cs, c.IncludeCRC, flags)
}

// Shape summarises a workload for distinctness accounting: counts of op kinds
// (log-bucketed) and payload size classes.
func Shape(w scen.Workload) string {
	cnt := map[string]int{}
	big := 0
	for _, o := range w.Ops {
		cnt[o.Kind]++
		if o.Data.Size() > 300 {
			big++
		}
	}
	b := func(n int) int {
		switch {
		case n == 0:
			return 0
		case n == 1:
			return 1
		case n <= 3:
			return 2
		case n <= 10:
			return 3
		default:
			return 4
		}
	}
	return fmt.Sprintf("s%dc%dm%da%dd%db%d", b(cnt[scen.OpSchema]), b(cnt[scen.OpChannel]), b(cnt[scen.OpMessage]), b(cnt[scen.OpAttachment]), b(cnt[scen.OpMetadata]), b(big))
}
