#!/usr/bin/env python3
"""Line-oriented server around the repository's Python MCAP implementation.

One JSON request per stdin line, one JSON response per stdout line.
  {"cmd":"read","image":"<base64>"}             -> what the Python readers return
  {"cmd":"write","ops":[...],"opts":{...}}      -> image written by the Python writer
The repository's python/mcap (VERIF_REPO, default /repo) is put first on sys.path.
"""
import base64, io, json, os, sys, traceback

REPO = os.environ.get("VERIF_REPO", "/repo")
sys.path.insert(0, os.path.join(REPO, "python", "mcap"))

from mcap.reader import NonSeekingReader, SeekingReader  # noqa: E402
from mcap.stream_reader import StreamReader  # noqa: E402
from mcap.writer import Writer, IndexType, CompressionType  # noqa: E402
import mcap.records as R  # noqa: E402


def hx(b):
    return bytes(b).hex()


def schema_d(s):
    if s is None:
        return None
    return {"kind": "schema", "id": s.id, "name": s.name, "enc": s.encoding, "data": hx(s.data)}


def channel_d(c):
    return {"kind": "channel", "id": c.id, "schema_id": c.schema_id, "topic": c.topic, "enc": c.message_encoding,
            "meta": sorted([[k, v] for k, v in c.metadata.items()])}


def message_d(m):
    return {"kind": "message", "channel_id": m.channel_id, "seq": m.sequence, "log_time": m.log_time,
            "pub_time": m.publish_time, "data": hx(m.data)}


def attachment_d(a):
    return {"kind": "attachment", "log_time": a.log_time, "pub_time": a.create_time, "name": a.name, "enc": a.media_type,
            "data": hx(a.data)}


def metadata_d(m):
    return {"kind": "metadata", "name": m.name, "meta": sorted([[k, v] for k, v in m.metadata.items()])}


def stats_d(s):
    if s is None:
        return None
    return {"message_count": s.message_count, "schema_count": s.schema_count, "channel_count": s.channel_count,
            "attachment_count": s.attachment_count, "metadata_count": s.metadata_count, "chunk_count": s.chunk_count,
            "start": s.message_start_time, "end": s.message_end_time,
            "per_channel": sorted([[int(k), int(v)] for k, v in s.channel_message_counts.items()])}


def triples(it):
    out = []
    for schema, channel, message in it:
        d = message_d(message)
        d["channel"] = channel_d(channel)
        d["schema"] = schema_d(schema)
        out.append(d)
    return out


def guarded(res, key, f):
    try:
        res[key] = f()
    except Exception as e:  # noqa: BLE001
        res[key + "_error"] = "%s: %s" % (type(e).__name__, e)
        res[key + "_trace"] = traceback.format_exc()[-600:]


def do_read(img):
    res = {}

    def stream():
        out = []
        hdr = None
        for rec in StreamReader(io.BytesIO(img), validate_crcs=True).records:
            if isinstance(rec, R.Header):
                hdr = {"profile": rec.profile, "library": rec.library}
            elif isinstance(rec, R.Schema):
                out.append(schema_d(rec))
            elif isinstance(rec, R.Channel):
                out.append(channel_d(rec))
            elif isinstance(rec, R.Message):
                out.append(message_d(rec))
            elif isinstance(rec, R.Attachment):
                out.append(attachment_d(rec))
            elif isinstance(rec, R.Metadata):
                out.append(metadata_d(rec))
            elif isinstance(rec, R.Statistics):
                out.append({"kind": "statistics", "stats": stats_d(rec)})
            elif isinstance(rec, R.DataEnd):
                out.append({"kind": "data_end"})
        return {"header": hdr, "records": out}

    guarded(res, "stream", stream)
    guarded(res, "nonseeking_file_order", lambda: triples(NonSeekingReader(io.BytesIO(img), validate_crcs=True).iter_messages(log_time_order=False)))
    guarded(res, "nonseeking_log_order", lambda: triples(NonSeekingReader(io.BytesIO(img), validate_crcs=True).iter_messages(log_time_order=True)))
    guarded(res, "nonseeking_attachments", lambda: [attachment_d(a) for a in NonSeekingReader(io.BytesIO(img), validate_crcs=True).iter_attachments()])
    guarded(res, "nonseeking_metadata", lambda: [metadata_d(m) for m in NonSeekingReader(io.BytesIO(img), validate_crcs=True).iter_metadata()])

    def seeking():
        out = {}
        rd = SeekingReader(io.BytesIO(img), validate_crcs=True)
        h = rd.get_header()
        out["header"] = {"profile": h.profile, "library": h.library}
        summary = rd.get_summary()
        out["has_summary"] = summary is not None
        if summary is not None:
            out["stats"] = stats_d(summary.statistics)
            out["n_chunk_indexes"] = len(summary.chunk_indexes)
            out["n_attachment_indexes"] = len(summary.attachment_indexes)
            out["n_metadata_indexes"] = len(summary.metadata_indexes)
            out["schemas"] = [schema_d(s) for _, s in sorted(summary.schemas.items())]
            out["channels"] = [channel_d(c) for _, c in sorted(summary.channels.items())]
        return out

    guarded(res, "seeking", seeking)
    guarded(res, "seeking_file_order", lambda: triples(SeekingReader(io.BytesIO(img), validate_crcs=True).iter_messages(log_time_order=False)))
    guarded(res, "seeking_log_order", lambda: triples(SeekingReader(io.BytesIO(img), validate_crcs=True).iter_messages(log_time_order=True)))
    guarded(res, "seeking_reverse", lambda: triples(SeekingReader(io.BytesIO(img), validate_crcs=True).iter_messages(log_time_order=True, reverse=True)))
    guarded(res, "seeking_attachments", lambda: [attachment_d(a) for a in SeekingReader(io.BytesIO(img), validate_crcs=True).iter_attachments()])
    guarded(res, "seeking_metadata", lambda: [metadata_d(m) for m in SeekingReader(io.BytesIO(img), validate_crcs=True).iter_metadata()])
    return res


def do_write(ops, opts):
    buf = io.BytesIO()
    idx = IndexType.NONE
    for name in opts.get("index_types") or []:
        idx |= getattr(IndexType, name)
    if not opts.get("index_types"):
        idx = IndexType.NONE
    if opts.get("index_all"):
        idx = IndexType.ALL
    w = Writer(buf, chunk_size=opts.get("chunk_size", 1024 * 1024), compression=CompressionType.NONE, index_types=idx,
               repeat_channels=opts.get("repeat_channels", True), repeat_schemas=opts.get("repeat_schemas", True),
               use_chunking=opts.get("use_chunking", True), use_statistics=opts.get("use_statistics", True),
               use_summary_offsets=opts.get("use_summary_offsets", True), enable_crcs=opts.get("enable_crcs", True),
               enable_data_crcs=opts.get("enable_data_crcs", False))
    w.start(profile=opts.get("profile", ""), library=opts.get("library", "pywrite"))
    ids = []
    for op in ops:
        k = op["kind"]
        if k == "schema":
            ids.append(w.register_schema(name=op["name"], encoding=op["enc"], data=bytes.fromhex(op["data"])))
        elif k == "channel":
            ids.append(w.register_channel(topic=op["topic"], message_encoding=op["enc"], schema_id=op["schema_id"], metadata=dict(op["meta"])))
        elif k == "message":
            w.add_message(channel_id=op["channel_id"], log_time=op["log_time"], data=bytes.fromhex(op["data"]), publish_time=op["pub_time"], sequence=op["seq"])
            ids.append(0)
        elif k == "attachment":
            w.add_attachment(create_time=op["pub_time"], log_time=op["log_time"], name=op["name"], media_type=op["enc"], data=bytes.fromhex(op["data"]))
            ids.append(0)
        elif k == "metadata":
            w.add_metadata(name=op["name"], data=dict(op["meta"]))
            ids.append(0)
    w.finish()
    return {"image": base64.b64encode(buf.getvalue()).decode(), "ids": ids}


def main():
    out = sys.stdout
    for line in sys.stdin:
        line = line.strip()
        if not line:
            continue
        try:
            req = json.loads(line)
            if req["cmd"] == "read":
                resp = do_read(base64.b64decode(req["image"]))
            elif req["cmd"] == "write":
                resp = do_write(req["ops"], req.get("opts", {}))
            elif req["cmd"] == "ping":
                resp = {"pong": True, "hashseed": os.environ.get("PYTHONHASHSEED")}
            else:
                resp = {"fatal": "unknown cmd"}
        except Exception as e:  # noqa: BLE001
            resp = {"fatal": "%s: %s" % (type(e).__name__, e), "trace": traceback.format_exc()[-800:]}
        out.write(json.dumps(resp) + "\n")
        out.flush()


if __name__ == "__main__":
    main()
