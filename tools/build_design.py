#!/usr/bin/env python3
"""Inserts tools/design_sec11.md (with the sensitivity table from seeded/TABLE.md)
into DESIGN.md between the section-11 markers (before Appendix A)."""
import os, re
V = os.path.dirname(os.path.dirname(os.path.abspath(__file__)))
d = open(os.path.join(V, "DESIGN.md")).read()
sec = open(os.path.join(V, "tools", "design_sec11.md")).read()
tbl_path = os.path.join(V, "seeded", "TABLE.md")
tbl = open(tbl_path).read() if os.path.exists(tbl_path) else "(no seeded changes drilled yet)"
sec = sec.replace("SENSITIVITY_TABLE", tbl)
begin, end = "<!-- SECTION-11-BEGIN -->", "<!-- SECTION-11-END -->"
block = begin + "\n" + sec.rstrip() + "\n" + end + "\n\n"
if begin in d:
    d = re.sub(re.escape(begin) + r".*?" + re.escape(end) + r"\n\n?", lambda m: block, d, flags=re.S)
else:
    marker = "---------------------------------------------------------------------------\n\n## Appendix A"
    assert marker in d
    d = d.replace(marker, block + marker)
open(os.path.join(V, "DESIGN.md"), "w").write(d)
print("DESIGN.md section 11 updated")
