#!/usr/bin/env python3
"""Mutation drill helper.

  mutant.py verify <mutant_dir> [--wt DIR]     confirm a seeded change: demo passes on HEAD, fails with
                                               the patch, baseline stays 195/195
  mutant.py drill <mutant_dir> <prop> [...]    apply the patch to a scratch worktree of /repo HEAD and run
                                               ./check <prop> quick against it (VERIF_REPO), never touching /repo
Scratch worktrees live under /tmp/mut/drill-<pid> and are removed afterwards.
"""
import glob, json, os, re, shutil, subprocess, sys, time

REPO = "/repo"
VERIF = os.path.dirname(os.path.dirname(os.path.abspath(__file__)))


def sh(cmd, cwd=None, env=None, timeout=3600):
    p = subprocess.run(cmd, shell=True, cwd=cwd, env=env, capture_output=True, text=True, timeout=timeout)
    return p.returncode, p.stdout + p.stderr


def make_wt():
    wt = f"/tmp/mut/drill-{os.getpid()}"
    sh(f"git -C {REPO} worktree remove --force {wt}")
    rc, out = sh(f"git -C {REPO} worktree add -q --detach {wt} HEAD")
    if rc != 0:
        raise SystemExit("cannot create worktree: " + out)
    return wt


def rm_wt(wt):
    sh(f"git -C {REPO} worktree remove --force {wt}")
    shutil.rmtree(wt, ignore_errors=True)


def apply_patch(wt, patch):
    rc, out = sh(f"git apply {patch}", cwd=wt)
    if rc != 0:
        rc, out = sh(f"git apply --3way {patch}", cwd=wt)
        if rc == 0:
            sh("git reset -q", cwd=wt)
    return rc, out


def goenv():
    env = dict(os.environ)
    for k in ("GOFLAGS", "GOWORK"):
        env.pop(k, None)
    env.update(GOPROXY="off", GOSUMDB="off", GOTOOLCHAIN="local")
    return env


def demo_info(d):
    demos = [f for f in glob.glob(os.path.join(d, "*")) if os.path.basename(f) not in ("patch.diff", "meta.json", "demo.txt", "result.json")]
    txt = open(os.path.join(d, "demo.txt")).read() if os.path.exists(os.path.join(d, "demo.txt")) else ""
    sub = "go/mcap"
    m = re.search(r"go/(ros/ros1msg|ros|mcap|conformance/[\w-]+)/?", txt)
    if m:
        sub = "go/" + m.group(1)
    return demos, sub, txt


def run_demo(wt, d):
    demos, sub, txt = demo_info(d)
    names = []
    copied = []
    for f in demos:
        if f.endswith("_test.go"):
            dst = os.path.join(wt, sub, os.path.basename(f))
            shutil.copy(f, dst)
            copied.append(dst)
            names += re.findall(r"^func (Test\w+)\(", open(f).read(), re.M)
    if not names:
        return None, "no Go test demo found (manual check needed): " + ",".join(os.path.basename(x) for x in demos)
    rc, out = sh(f"go test -count=1 -run '^({'|'.join(names)})$' .", cwd=os.path.join(wt, sub), env=goenv(), timeout=1200)
    for c in copied:
        os.remove(c)
    sh("git checkout go/go.work.sum", cwd=wt)
    return rc == 0, out[-1500:]


def verify(d, keep_wt=None):
    wt = make_wt()
    res = {"dir": d}
    try:
        ok, out = run_demo(wt, d)
        res["demo_passes_on_head"] = ok
        if ok is None:
            res["note"] = out
        elif not ok:
            res["head_output"] = out
        rc, out = apply_patch(wt, os.path.join(d, "patch.diff"))
        res["patch_applies"] = rc == 0
        if rc != 0:
            res["apply_output"] = out[-800:]
            return res
        rc, out = sh("go build ./...", cwd=os.path.join(wt, "go/mcap"), env=goenv())
        rc2, out2 = sh("go build ./...", cwd=os.path.join(wt, "go/ros"), env=goenv())
        res["builds"] = rc == 0 and rc2 == 0
        ok, out = run_demo(wt, d)
        res["demo_fails_with_patch"] = (ok is False)
        if ok:
            res["patched_output"] = out
        rc, out = sh(f"python3 {VERIF}/tools/baseline.py {wt}", timeout=1800)
        res["baseline_ok"] = rc == 0
        res["baseline"] = out.strip().splitlines()[0] if out.strip() else ""
    finally:
        rm_wt(wt)
    res["confirmed"] = bool(res.get("demo_passes_on_head") and res.get("patch_applies") and res.get("builds") and res.get("demo_fails_with_patch") and res.get("baseline_ok"))
    return res


def drill(d, props, tier="quick"):
    wt = make_wt()
    out_all = {}
    try:
        rc, out = apply_patch(wt, os.path.join(d, "patch.diff"))
        if rc != 0:
            return {"error": "patch does not apply: " + out[-500:]}
        for p in props:
            env = dict(os.environ, VERIF_REPO=wt, VERIF_EVIDENCE_DIR=f"/tmp/mut/evidence-{os.getpid()}")
            t0 = time.time()
            rc, out = sh(f"{VERIF}/check {p} {tier}", cwd=VERIF, env=env, timeout=7200)
            lines = [l for l in out.splitlines() if l.startswith(("VIOLATION", "violation:", "HARNESS", "BUILD", "KNOWN"))]
            out_all[p] = {"exit": rc, "wall_s": round(time.time() - t0, 1), "lines": lines[:6]}
    finally:
        rm_wt(wt)
    return out_all


def main():
    if len(sys.argv) < 3:
        raise SystemExit(__doc__)
    cmd, d = sys.argv[1], os.path.abspath(sys.argv[2])
    if cmd == "verify":
        r = verify(d)
        print(json.dumps(r, indent=1))
        json.dump(r, open(os.path.join(d, "result.json"), "w"), indent=1)
    elif cmd == "drill":
        tier = os.environ.get("DRILL_TIER", "quick")
        r = drill(d, sys.argv[3:], tier)
        print(json.dumps({"mutant": os.path.basename(d), "results": r}, indent=1))
    else:
        raise SystemExit(__doc__)


if __name__ == "__main__":
    main()
