#!/usr/bin/env python3
"""Run the repository's pinned Go test suite (guard OFF, no build tags) and
compare the passing set with /root/.vp/BASELINE.json stable_pass.
usage: baseline.py [repo_dir]"""
import json, os, subprocess, sys
repo = sys.argv[1] if len(sys.argv) > 1 else "/repo"
base = json.load(open("/root/.vp/BASELINE.json"))
want = set(base["stable_pass"])
mods = ["go/conformance/test-read-conformance", "go/conformance/test-write-conformance", "go/mcap", "go/ros"]
env = dict(os.environ, GOFLAGS="", GOPROXY="off", GOSUMDB="off", GOTOOLCHAIN="local")
env.pop("GOWORK", None)
passed = set()
for m in mods:
    p = subprocess.run(["go", "test", "-json", "-vet=off", "-count=1", "-timeout", "25m", "./..."],
                       cwd=os.path.join(repo, m), env=env, capture_output=True, text=True)
    for line in p.stdout.splitlines():
        try:
            ev = json.loads(line)
        except Exception:
            continue
        if ev.get("Action") == "pass" and ev.get("Test"):
            passed.add(ev["Package"] + "::" + ev["Test"])
subprocess.run(["git", "-C", repo, "checkout", "go/go.work.sum"], capture_output=True)
missing = sorted(want - passed)
print(f"baseline: {len(want & passed)}/{len(want)} stable tests pass; {len(passed - want)} additional passes")
for t in missing[:20]:
    print("MISSING", t)
sys.exit(1 if missing else 0)
