#!/usr/bin/env python3
"""Copies confirmed seeded changes from /tmp/mut/out/<id> into /verif/seeded/<id>/
(patch.diff, demo files, demo.txt, meta.json extended with what was run here) and
regenerates the sensitivity table in DESIGN.md section 11.5.

usage: keep_mutants.py            (processes every /tmp/mut/out/<id> that has result.json)
"""
import glob, json, os, re, shutil, subprocess

VERIF = os.path.dirname(os.path.dirname(os.path.abspath(__file__)))
OUT = "/tmp/mut/out"


def load(p):
    try:
        return json.load(open(p))
    except Exception:
        return None


def drill_of(mid):
    p = os.path.join(OUT, mid + ".drill.json")
    if not os.path.exists(p):
        return None
    t = open(p).read()
    try:
        r = json.loads(t[t.index("{"):])
    except Exception:
        return {"error": t[-300:]}
    return r.get("results")


def main():
    rows = []
    for d in sorted(glob.glob(os.path.join(OUT, "C??-?"))):
        mid = os.path.basename(d)
        res = load(os.path.join(d, "result.json"))
        meta = load(os.path.join(d, "meta.json")) or {}
        if not res or not res.get("confirmed"):
            continue
        dst = os.path.join(VERIF, "seeded", mid)
        os.makedirs(dst, exist_ok=True)
        for f in os.listdir(d):
            if f in ("result.json", "patch.orig.diff") or f.endswith(".log"):
                continue
            shutil.copy(os.path.join(d, f), os.path.join(dst, f))
        drill = drill_of(mid) or {}
        prop = mid.split("-")[0]
        caught = {}
        for p, r in drill.items():
            if isinstance(r, dict) and "exit" in r:
                line = next((l for l in r.get("lines", []) if l.startswith("violation:")), "")
                caught[p] = {"exit": r["exit"], "wall_s": r.get("wall_s"), "clause": (re.search(r"clause=(\S+)", line) or [None, ""])[1]}
        meta_out = {
            "id": mid,
            "property": meta.get("property", prop),
            "summary": meta.get("summary", ""),
            "needs": meta.get("needs", ""),
            "files": meta.get("files", []),
            "author_verified": meta.get("verified", ""),
            "confirmed_here": {
                "command": f"python3 tools/mutant.py verify {d}",
                "demo_passes_on_head": res.get("demo_passes_on_head"),
                "demo_fails_with_patch": res.get("demo_fails_with_patch"),
                "baseline": res.get("baseline"),
                "rebased": os.path.exists(os.path.join(d, "patch.orig.diff")),
            },
            "drill": {"command": f"python3 tools/mutant.py drill {d} {prop}", "results": caught},
        }
        json.dump(meta_out, open(os.path.join(dst, "meta.json"), "w"), indent=1)
        rows.append(meta_out)
    # table
    lines = ["| Seeded change | What it does (needs) | Check | Result |", "|---|---|---|---|"]
    n_caught = 0
    other = []
    for m in rows:
        res = m["drill"]["results"]
        if not res:
            cell = "not drilled yet"
            chk = m["property"]
        else:
            chk = ", ".join(sorted(res))
            parts = []
            ok = False
            for p, r in sorted(res.items()):
                if r["exit"] == 1:
                    parts.append(f"caught by {p} (`{r['clause']}`, {r['wall_s']} s)")
                    ok = True
                elif r["exit"] == 0:
                    parts.append(f"**missed** by {p} quick")
                else:
                    parts.append(f"{p}: harness exit {r['exit']}")
            cell = "; ".join(parts)
            n_caught += ok
            own = res.get(m["id"].split("-")[0])
            if ok and not (own and own["exit"] == 1):
                other.append(m["id"])
        summ = (m["summary"] or "").replace("|", "/").replace("\n", " ")
        if len(summ) > 230:
            summ = summ[:230] + "..."
        lines.append(f"| {m['id']} | {summ} | {chk} | {cell} |")
    lines.append("")
    lines.append(f"{n_caught} of {len(rows)} kept changes are caught by the quick tier: {n_caught - len(other)} by the check of the property they were written against, {len(other)} by the check that owns the mechanism ({', '.join(other)}; see the text below).")
    table = "\n".join(lines)
    open(os.path.join(VERIF, "seeded", "TABLE.md"), "w").write(table + "\n")
    print(table[-400:])


if __name__ == "__main__":
    main()
