#!/usr/bin/env python3
"""Determinism self-test: every (property, VERIF_SEED, batch) must give the same
event-log hash, scenario count, evaluation count and distinct-case set no matter
when, how often and under what load it runs. Each batch is run REPS times in
separate processes, half of them concurrently (16 at once), and compared.

usage: determinism.py [--batches N] [--reps R] [props...]   (needs ./check build first)
writes evidence/determinism.json (not a property evidence file)."""
import json, os, subprocess, sys, time
from concurrent.futures import ThreadPoolExecutor

VERIF = os.path.dirname(os.path.dirname(os.path.abspath(__file__)))
BIN = os.path.join(VERIF, ".build", "mcapsim")


def run_batch(prop, seed, batch, gmp):
    env = dict(os.environ, GOMAXPROCS=str(gmp), VERIF_DIR=VERIF)
    p = subprocess.run([BIN, "batch", "--prop", prop, "--tier", "quick", "--seed", str(seed), "--batch", str(batch), "--verif", VERIF],
                       capture_output=True, text=True, env=env)
    for line in p.stdout.splitlines():
        if line.startswith("BATCH-RESULT "):
            r = json.loads(line[len("BATCH-RESULT "):])
            st = r["stats"]
            return {"event_hash": st["event_hash"], "scenarios": st["scenarios"], "evaluations": st["evaluations"],
                    "distinct": len(st.get("distinct") or []), "distinct_sum": sum(st.get("distinct") or []) % (1 << 61),
                    "violation": bool(r.get("violation")), "harness": r.get("harness_error", "")}
    return {"error": (p.stdout + p.stderr)[-300:]}


def main():
    args = sys.argv[1:]
    nb, reps = 4, 4
    props = []
    i = 0
    while i < len(args):
        if args[i] == "--batches":
            nb = int(args[i + 1]); i += 2
        elif args[i] == "--reps":
            reps = int(args[i + 1]); i += 2
        else:
            props.append(args[i]); i += 1
    if not props:
        props = subprocess.run([BIN, "list"], capture_output=True, text=True).stdout.split()
    jobs = []
    for prop in props:
        for seed in (1, 7):
            for b in range(nb):
                gmp = 1 + b % 2  # what the runner gives this batch
                for rep in range(reps):
                    jobs.append((prop, seed, b, gmp, rep))
    t0 = time.time()
    results = {}
    # first half of the repetitions sequentially in one thread, second half 16-way concurrent
    seq = [j for j in jobs if j[4] < reps // 2]
    par = [j for j in jobs if j[4] >= reps // 2]
    with ThreadPoolExecutor(max_workers=4) as ex:
        for j, r in zip(seq, ex.map(lambda j: run_batch(j[0], j[1], j[2], j[3]), seq)):
            results[j] = r
    with ThreadPoolExecutor(max_workers=16) as ex:
        for j, r in zip(par, ex.map(lambda j: run_batch(j[0], j[1], j[2], j[3]), par)):
            results[j] = r
    mismatches = []
    groups = {}
    for (prop, seed, b, gmp, rep), r in results.items():
        groups.setdefault((prop, seed, b), []).append(r)
    for key, rs in sorted(groups.items()):
        first = json.dumps(rs[0], sort_keys=True)
        for r in rs[1:]:
            if json.dumps(r, sort_keys=True) != first:
                mismatches.append({"prop": key[0], "seed": key[1], "batch": key[2], "a": rs[0], "b": r})
                break
    out = {"properties": props, "batches_per_seed": nb, "seeds": [1, 7], "repetitions": reps, "processes": len(jobs),
           "groups_compared": len(groups), "mismatches": mismatches, "wall_s": round(time.time() - t0, 1),
           "note": "a group is one (property, seed, batch); GOMAXPROCS of a batch is a function of its index (1 + batch % 2), as in every run"}
    os.makedirs(os.path.join(VERIF, "evidence"), exist_ok=True)
    json.dump(out, open(os.path.join(VERIF, "evidence", "determinism.json"), "w"), indent=1)
    print(f"determinism: {len(groups)} groups x {reps} repetitions, {len(mismatches)} mismatches, {out['wall_s']}s")
    for m in mismatches[:10]:
        print("MISMATCH", m["prop"], m["seed"], m["batch"], m["a"], m["b"])
    sys.exit(1 if mismatches else 0)


if __name__ == "__main__":
    main()
