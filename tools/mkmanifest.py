#!/usr/bin/env python3
"""Regenerates /verif/MANIFEST.json from the table below and validates it
against /root/.vp/MANIFEST.schema.json. Edit IMPLEMENTED as checks are built."""
import json, os, sys

VERIF = os.path.dirname(os.path.dirname(os.path.abspath(__file__)))

IMPLEMENTED = ["C01"]

HOOK_COMMITS = []

CHECKS = {
 "C01": dict(level="exploration", design="DESIGN.md §4 C01",
   technique="deterministic simulation: seeded (rapid) search over writer call sequences x configurations x benign delivery schedules against a reference model; replayable JSON scenarios",
   text="Seeded search over legal writer call sequences, all writer configurations (incl. custom codecs, 2^10 flag combinations, SkipMagic) and benign read-fragmentation schedules; the real Writer runs into a simulated sink and the real Lexer and non-indexed iterator read back from a simulated source; every field of every record is compared with a reference model, retained values are re-compared after the read. Evidence, not proof: a clean batch samples the space.",
   note="Trusted: the reference model (model.FromWorkload), the harness comparison code, rapid v1.3.0 as choice source. Custom codecs and SkipMagic files are read back through the lexer only."),
}

NOT_APPLICABLE = {
 "C17": "fixed finite matrix of 416 golden vectors fed to two main programs that open a path and print: a pure function of one vector with no schedule, clock, fault or stream seam for a simulator to own; deciding it is a conformance test run, not simulation (the vectors are used only to pin this project's reference encoder/decoder)",
 "C19": "ros1msg.ParseMessageDefinition is a pure in-memory function of (string, []byte): no stream, no I/O seam, no state across calls, no schedule or fault; a type-graph round trip plus a termination fuzz is input generation, which this technique family does not add to",
}

ALL = ["C%02d" % i for i in range(1, 21)]


def main():
    checks = []
    for pid in IMPLEMENTED:
        c = CHECKS[pid]
        checks.append({
            "property_id": pid,
            "quick_cmd": f"./check {pid} quick",
            "thorough_cmd": f"./check {pid} thorough",
            "evidence_file": f"/verif/evidence/{pid}.json",
            "replay_cmd_template": "./check replay {path}",
            "engine": "mcapsim",
            "level_claimed": {"category": c["level"], "text": c["text"], "design_ref": c["design"]},
            "level_note": c["note"],
            "technique": c["technique"],
        })
    na = []
    for pid in ALL:
        if pid in IMPLEMENTED:
            continue
        reason = NOT_APPLICABLE.get(pid, "check not built yet in this session (planned, see DESIGN.md §4); nothing is claimed for it")
        na.append({"property_id": pid, "reason": reason})
    m = {
        "version": 1,
        "setup_cmd": "./check build",
        "hooks": {
            "guard": "verif (Go build tag)",
            "enable": "go build -tags verif (done by ./check for every run; module replace directives point at /repo/go/mcap and /repo/go/ros)",
            "baseline_off_cmd": "python3 /verif/tools/baseline.py /repo",
            "source_commits": HOOK_COMMITS,
            "add_only": True,
        },
        "engines": [{
            "name": "mcapsim",
            "path": "/verif/sim",
            "serves_properties": IMPLEMENTED,
            "kind_free_text": "deterministic simulator with fault injection: simulated sink/source/stored image, reference model and spec-derived decoder as oracles, rapid v1.3.0 as sole choice source, batch child processes, JSON replay files",
        }],
        "checks": checks,
        "not_applicable": na,
        "notes": "Every check rebuilds mcapsim from /repo's working tree (./check), runs the reference-encoder selftest, then the property. Exit 0 held / 1 VIOLATION / 2 harness or build trouble. VERIF_SEED selects the seed (default 1); VERIF_REPO points the build at another tree (mutation drills).",
    }
    path = os.path.join(VERIF, "MANIFEST.json")
    json.dump(m, open(path, "w"), indent=1)
    try:
        import jsonschema
        jsonschema.validate(m, json.load(open("/root/.vp/MANIFEST.schema.json")))
        print("MANIFEST.json valid;", len(checks), "checks")
    except ImportError:
        print("MANIFEST.json written (jsonschema not importable here; run with python3-vt to validate)")


if __name__ == "__main__":
    main()
