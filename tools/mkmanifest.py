#!/usr/bin/env python3
"""Regenerates /verif/MANIFEST.json from the table below and validates it
against /root/.vp/MANIFEST.schema.json. Edit IMPLEMENTED as checks are built."""
import json, os, sys

VERIF = os.path.dirname(os.path.dirname(os.path.abspath(__file__)))

IMPLEMENTED = ["C01", "C02", "C03", "C04", "C05", "C06", "C07", "C08", "C09", "C10", "C11", "C12", "C13", "C14", "C15", "C16", "C18", "C20"]

HOOK_COMMITS = ["8829da3", "5264966"]

CHECKS = {
 "C01": dict(level="exploration", design="DESIGN.md §4 C01",
   technique="deterministic simulation: seeded (rapid) search over writer call sequences x configurations x benign delivery schedules against a reference model; replayable JSON scenarios",
   text="Seeded search over legal writer call sequences, all writer configurations (incl. custom codecs, 2^10 flag combinations, SkipMagic) and benign read-fragmentation schedules; the real Writer runs into a simulated sink and the real Lexer and non-indexed iterator read back from a simulated source; every field of every record is compared with a reference model, retained values are re-compared after the read. Evidence, not proof: a clean batch samples the space.",
   note="Trusted: the reference model (model.FromWorkload), the harness comparison code, rapid v1.3.0 as choice source. Custom codecs and SkipMagic files are read back through the lexer only."),
 "C02": dict(level="exploration", design="DESIGN.md §4 C02",
   technique="deterministic simulation: seeded search over workloads x configurations; indexed vs sequential reads of the same simulated image compared element-wise; random access through every index entry",
   text="For every generated file the index-based read (3 orders) is compared with the sequential scan (itself compared with the model): element-wise equality where the summary carries chunk indexes + repeated schemas/channels, otherwise equal-or-error and never a clean EOF with fewer messages (silent_loss). Every attachment/metadata index entry is dereferenced and compared with what was written; metadata callbacks are checked on both paths. Samples the space; not a proof.",
   note="Trusted: reference model, harness comparison. Files in which no channel was written are treated under the fall-back-or-error clause (their summary cannot express 'no messages')."),
 "C04": dict(level="exploration", design="DESIGN.md §4 C04",
   technique="deterministic simulation: seeded search over files x topic sets x windows (corners from the file's own message times) x option spellings x reader modes; oracle filter(model)",
   text="Topic sets and [start,end) windows with boundaries on message times, 0 and 2^64-1 are expressed through every option spelling (nanosecond and deprecated, either order, one-sided) and read by the scan and by the indexed iterator in 3 orders under benign delivery schedules; the result must be exactly filter(model). Samples the space.",
   note="Trusted: reference model Select(); deprecated int64 options exercised with values 0..2^63-1."),
 "C05": dict(level="exploration", design="DESIGN.md §4 C05",
   technique="deterministic simulation: every image the real writer produces in the simulated sink is validated by an independent spec-derived decoder (refmcap) - grammar and every pointer",
   text="Every image produced by seeded workloads x configurations is decoded by refmcap (written from the spec, no shared code with go/mcap, pinned by the 416 conformance vectors) and every pointer - chunk index, message index entry and offsets, attachment/metadata index, summary offset, footer, chunk header sizes and times - is compared with the bytes it designates; the sink journal shows output is append-only. Samples the space.",
   note="Trusted: refmcap decoder/validator (pinned by selftest against Git-LFS sha256 of all conformance binaries), zstd/lz4 libraries."),
 "C06": dict(level="exploration", design="DESIGN.md §4 C06",
   technique="deterministic simulation: CRCs of every produced image recomputed from the file bytes over the spec's ranges by refmcap",
   text="Data-section, summary, per-chunk and per-attachment CRC-32 of every generated image are recomputed from the bytes over exactly the ranges the spec defines and compared with the stored fields; with checksums disabled the three file/chunk fields must be 0 while attachment CRCs stay correct. Samples the space.",
   note="Trusted: refmcap, hash/crc32. A true CRC of 0 is indistinguishable from 'not available'."),
 "C07": dict(level="fault_enumeration", design="DESIGN.md §4 C07",
   technique="deterministic simulation with stored-byte fault injection: exhaustive single-bit flips (plus seeded overwrites/swaps and well-formed replacement streams carrying a forged record) over every chunk payload and attachment of each generated file; oracle prefix-then-report",
   text="For each generated checksummed file every single-bit flip of every stored chunk-payload byte and every attachment body byte is applied to the stored image and read back with validation (error mode, invalid-chunk-token mode and, for a quarter of the faults, the latter with a decompressed-size limit one byte below the damaged chunk; the options value is zeroed after NewLexer); compressed payloads are also replaced by well-formed zstd/lz4 streams of the same stored length that carry one more record behind the declared size: records before the report must be original, the report must come before any record of the damaged chunk, an unreported flip must leave the stream identical (never accepted for uncompressed chunks), attachments must not surface altered content with agreeing CRCs. The fault dimension is exhaustive per file; files are sampled.",
   note="Trusted: harness oracle, refmcap FileMap for fault placement. errors.Is(err, io.EOF) is treated as end-of-file because the library's own Range helper does."),
 "C08": dict(level="exploration", design="DESIGN.md §4 C08",
   technique="deterministic simulation: seeded search biased to time corner cases; writer statistics, statistics record (refmcap) and Reader.Info compared with model aggregates",
   text="Writer.Statistics after Close, the statistics record as decoded by refmcap and Reader.Info are compared with the model's true aggregates (counts, per-channel counts, earliest/latest log time) on workloads biased to log time 0, descending times across chunks, message-less chunks, channels without messages and re-written records; Info's listings are compared with refmcap's decode of the same summary. Samples the space.",
   note="Trusted: reference model, refmcap. Chunk count ground truth = chunk records decoded by refmcap."),
 "C09": dict(level="fault_enumeration", design="DESIGN.md §4 C09",
   technique="deterministic simulation with crash injection: every truncation point 0..len-1 of each generated file (= every crash point of an append-only sink), four sequential reader modes, consumer polling twice more after an error; oracle prefix + completeness, undamaged read anchored to the content model",
   text="Each generated file is cut at EVERY byte and read through the lexer (CRC validation off and on) the lexer on a seekable source without attachment callback and the non-indexed iterator (fresh / reused Message and buffer, varying from cut to cut) under a drawn delivery policy; after an error the consumer calls twice more and whatever that returns counts as returned: the records must be an element-wise prefix of the uncut read (which is itself compared with the content model) (a cut attachment may surface with fewer data bytes), the read must end with EOF or an error without panic or hang, and every message of every completely written chunk/record must be returned. Crash points are exhaustive per file; files are sampled.",
   note="Trusted: harness oracle, refmcap record boundaries; append-only output is checked by C05."),
 "C14": dict(level="fault_enumeration", design="DESIGN.md §4 C14",
   technique="deterministic simulation with sink fault injection: every destination write call k of each workload failed as error/short write x transient/permanent; every attachment source failing at every byte",
   text="For each generated workload the fault-free run gives N destination writes; every k<N is then failed (error with 0 bytes, short count with ErrShortWrite, short count with ENOSPC; transient and permanent) while the caller keeps calling: the API call in flight must return non-nil, nothing may panic or hang, accepted bytes must be a prefix of the fault-free output. Attachment sources fail after j bytes / end early / deliver extra for every j. Write calls are exhaustive per workload; workloads are sampled.",
   note="Trusted: sink journal tagging of the API call in flight. A short count with nil error is not injected (violates io.Writer)."),
 "C15": dict(level="fault_enumeration", design="DESIGN.md §4 C15",
   technique="deterministic simulation with read fault injection and owned delivery schedules: unreadable byte at every position, medium failing at every Read call (once / for good), error on every seek call, five benign fragmentation policies; nine reader modes",
   text="Each generated file is read under five benign delivery policies (result incl. terminal condition must not change) and with an unreadable byte at EVERY position incl. in place of EOF (three error-delivery variants) a medium that fails at EVERY k-th Read call (once, or for good - then the consumer calls three more times and must never be told a clean EOF) and an error on EVERY seek call, through the lexer (validation off/on), the scan iterator, the indexed iterator in 3 orders, Info and random access to every indexed attachment / metadata record: records must be a prefix of the fault-free result and, whenever the source actually returned the error to the library, the read must end with a non-EOF error. Positions are exhaustive per file; files are sampled.",
   note="Trusted: simulated source (delivery sizes are a hash of offset, so zstd's reader goroutine cannot change them). A one-shot error returned together with enough bytes is not injected because io.ReadFull itself discards it."),
 "C03": dict(level="exploration", design="DESIGN.md §4 C03",
   technique="deterministic simulation over reference-encoder layouts: exhaustive seed-free sweep of all <=3x3 files on a 4-value time domain (1 channel) plus a 2-channel slice, and seeded search over larger tie-heavy files; oracle exact sort / exactly-once / in-chunk tie order / repeatability",
   text="Files whose chunk/time arrangement is fully controlled (reference encoder) are read in log-time and reverse order: every selected message exactly once (unique sequence numbers), monotone log time, in-chunk ties in (reverse) file order, same sequence on a second Messages() and on a fresh reader. The 614125 one-channel files of the stated scope are enumerated completely on every run; the 2-channel space and the larger files (up to 40 chunks x 60 messages, >12-way ties, nested/backwards/empty chunks, per-chunk compression, topic and time filters) are sampled.",
   note="Trusted: refmcap encoder (pinned by selftest), harness oracle. exhaustive=false because the 2-channel sweep is a slice."),
 "C10": dict(level="exploration", design="DESIGN.md §4 C10",
   technique="deterministic simulation with stored-byte fault injection observed at the process boundary: field-aware hostile mutations of spec-valid files, splices and random bytes, every decode entry point, in batch processes with RLIMIT_AS that announce each input; oracle no panic / process alive / CPU watchdog / allocation ceilings",
   text="Hostile inputs (every length/offset/size/count/crc/opcode field of reference-encoded files set to boundary and huge values, truncation, duplication, splicing, opcode changes incl. nested chunks, compressed chunks whose stream is shorter / longer than declared or whose zstd / lz4 frame header declares a huge content size, random bytes) go through the lexer under 8 option sets, all Parse* functions, NewReader/Info/Messages in 4 modes and random access at indexed and hostile offsets, inside a child process with an 8 GiB address-space cap that names the input before running it: no panic, no process death, no hang (CPU watchdog per evaluation), allocation per entry within the documented ceilings. Seeded sampling, not coverage-guided.",
   note="Trusted: process isolation and in-flight file, runtime.MemStats accounting. Decompression bombs are allowed for (bound grows with bytes returned). After two entries allocated a permitted >100 MiB buffer for one input, the remaining unlimited entries are skipped for that input (counted)."),
 "C11": dict(level="exploration", design="DESIGN.md §4 C11",
   technique="deterministic simulation over reference-encoder layouts: each content encoded plain and decorated (unknown-opcode records at top level / in chunks / at summary group boundaries, trailing bytes on every extensible record); all Go readers compared with the model",
   text="Each generated content is laid out by the reference encoder twice - plain and with unknown records (0x10..0xFF, any length incl. 0) and appended bytes (incl. the conformance pad 01 ff ff), all pointers recomputed and both files validated by refmcap - and everything the Go readers report on the decorated file (lexer content, scan, indexed reads in 3 orders incl. topic-restricted, Info, random access) must equal the model. Samples the space.",
   note="Trusted: refmcap encoder/decoder/validator. Unknown records are placed only where the spec allows a record."),
 "C12": dict(level="exploration", design="DESIGN.md §4 C12",
   technique="deterministic simulation over reference-encoder layouts: one content, several legal layouts (chunk partition, per-chunk compression, definition placement, summary group permutation and subsets, CRCs); all Go readers compared with the model",
   text="Each generated content is laid out in 2-4 different legal ways (partition into chunks incl. none/each/random and message-less/empty chunks, none/zstd/lz4 per chunk, definitions as written / early / early-only / repeated per chunk, every permutation of summary groups with channels before statistics, optional groups present or not, CRCs present or zero) and every layout must read as the model through the lexer, scan, indexed iterators (3 orders, also topic-restricted), Info and random access. Samples the space.",
   note="Trusted: refmcap encoder (every layout is validated by refmcap before use). Indexed reads are compared only for files that actually carry chunk indexes + repeated channels/schemas and keep every message in a chunk."),
 "C13": dict(level="exploration", design="DESIGN.md §4 C13",
   technique="deterministic simulation with an owned cooperative scheduler: caller tasks parked before every API call and released one at a time from a seeded schedule; plus repetition over map insertion orders and GOMAXPROCS settings",
   text="(i) the same workload is written 8/32 times with every map rebuilt in another insertion order - outputs must be byte-identical; (ii) under GOMAXPROCS 1/2/4/16 - identical; (iii) 2..8 writer/lexer/iterator instances run as goroutines released one API call at a time following a schedule drawn from the seed - every instance's result must equal its solo run; (iii') a writer, then other instances to completion, then the same writer again - identical bytes; (iv) the instances as free-running goroutines on 16 OS threads, and once more in a -race build where a data-race report ends the batch process. Clause (i) is decided by repetition (map iteration order is not seedable); (iii) and (iii') replay exactly; (iv) is the one clause whose interleaving is not owned.",
   note="Trusted: scheduler (one runnable task at a time). Interleaving granularity of (iii) is the API call; races inside one call are left to (iv), whose hits may need several replay attempts (up to 5 x 200 rounds are tried, and a hit is reported even if it does not show again)."),
 "C16": dict(level="exploration", design="DESIGN.md §4 C16",
   technique="deterministic simulation with two real implementations exchanging files through the simulated disk: Go writer -> Python readers and Python writer -> Go readers, both compared with the reference model",
   text="Seeded workloads (valid UTF-8, uncompressed) are written by the Go writer in every configuration and read by the repository's Python StreamReader (validate_crcs), NonSeekingReader and SeekingReader in a subprocess with PYTHONHASHSEED fixed; seeded op lists are written by the Python Writer across its options and read by the Go lexer, scan, Messages() with default options, indexed iterators, Info and random access through the index entries. Full content, time-ordered reads, attachments, metadata and statistics are compared with the model. Samples the space.",
   note="Trusted: reference model, pyserve.py glue. zstandard/lz4 are not installed for Python: uncompressed only. Seeking readers compared only where the summary carries what they rely on."),
 "C18": dict(level="exploration", design="DESIGN.md §4 C18",
   technique="deterministic simulation: generated bags (independent ROS bag 2.0 encoder) and SQLite databases converted by the real converters between simulated source and sink; corrupted bags observed at the process boundary",
   text="Bags from an encoder written from the format description (connection ids 0/65535, repeated connection records, shared/distinct type+md5, messages of 0 B..5 MiB, times to 2^32-1 s, unchunked / chunked none / lz4) and db3 files made with the real sqlite driver plus generated share/ trees are converted by ros.Bag2MCAP / ros.DB3ToMCAP under drawn writer options and delivery policies; the output is validated by refmcap and compared with the bag/db model. Type definitions vary from scenario to scenario under the same names and a third of the db3 scenarios convert once against another share/ tree first. Corrupted bags (bad/short magic, truncation, hostile header/field/data lengths from a list, lengths off by a few bytes, field lengths overrunning their header by amounts derived from the bag's own structure) must give an error: the batch process has an 8 GiB address-space cap and names each input, so an exit, crash or OOM identifies it. Samples the space.",
   note="Trusted: bagfmt encoder, refmcap, sqlite driver. bz2 bags are not generated. Messages on non-message-typed db3 topics are not generated (outside the statement)."),
 "C20": dict(level="exploration", design="DESIGN.md §4 C20",
   technique="deterministic simulation with resource invariants monitored at every step: verif-tagged accessor read after every NextInto; generator sources/sinks with heap sampling at I/O events for streaming paths",
   text="(A) reference-encoded files of 10..100(1000) chunks with overlap depth 1..8 are read in 3 orders with/without filters; after every NextInto the chunk-slot accessor must show slots <= 1 (file order) / <= measured overlap depth, and bounded buffer capacity. (B) generator sources synthesise many-chunk streams and attachments of 8..32 (64..256) MiB that are never held in memory; heap growth sampled at I/O events must stay below 32 MiB + 4 units and total allocation must not grow with attachment size / per-message allocation must not grow with stream length, for the lexer (validation on/off, none/zstd/lz4), the attachment callback, the scan iterator and WriteAttachment. Samples the space.",
   note="Needs the hook go/mcap/verif_hooks.go (build tag verif, add-only). GC timing is not owned; thresholds leave an order of magnitude of slack."),
}

NOT_APPLICABLE = {
 "C17": "fixed finite matrix of 416 golden vectors fed to two main programs that open a path and print: a pure function of one vector with no schedule, clock, fault or stream seam for a simulator to own; deciding it is a conformance test run, not simulation (the vectors are used only to pin this project's reference encoder/decoder)",
 "C19": "ros1msg.ParseMessageDefinition is a pure in-memory function of (string, []byte): no stream, no I/O seam, no state across calls, no schedule or fault; a type-graph round trip plus a termination fuzz is input generation, which this technique family does not add to",
}

ALL = ["C%02d" % i for i in range(1, 21)]


def main():
    checks = []
    for pid in IMPLEMENTED:
        c = CHECKS[pid]
        checks.append({
            "property_id": pid,
            "quick_cmd": f"./check {pid} quick",
            "thorough_cmd": f"./check {pid} thorough",
            "evidence_file": f"/verif/evidence/{pid}.json",
            "replay_cmd_template": "./check replay {path}",
            "engine": "mcapsim",
            "level_claimed": {"category": c["level"], "text": c["text"], "design_ref": c["design"]},
            "level_note": c["note"],
            "technique": c["technique"],
        })
    na = []
    for pid in ALL:
        if pid in IMPLEMENTED:
            continue
        reason = NOT_APPLICABLE.get(pid, "check not built yet in this session (planned, see DESIGN.md §4); nothing is claimed for it")
        na.append({"property_id": pid, "reason": reason})
    m = {
        "version": 1,
        "setup_cmd": "./check build",
        "hooks": {
            "guard": "verif (Go build tag)",
            "enable": "go build -tags verif (done by ./check for every run; module replace directives point at /repo/go/mcap and /repo/go/ros)",
            "baseline_off_cmd": "python3 /verif/tools/baseline.py /repo",
            "source_commits": HOOK_COMMITS,
            "add_only": True,
        },
        "engines": [{
            "name": "mcapsim",
            "path": "/verif/sim",
            "serves_properties": IMPLEMENTED,
            "kind_free_text": "deterministic simulator with fault injection: simulated sink/source/stored image, reference model and spec-derived decoder as oracles, rapid v1.3.0 as sole choice source, batch child processes, JSON replay files",
        }],
        "checks": checks,
        "not_applicable": na,
        "notes": "Every check rebuilds mcapsim from /repo's working tree (./check), runs the reference-encoder selftest, then the property. Exit 0 held / 1 VIOLATION / 2 harness or build trouble. VERIF_SEED selects the seed (default 1); VERIF_REPO points the build at another tree (mutation drills).",
    }
    path = os.path.join(VERIF, "MANIFEST.json")
    json.dump(m, open(path, "w"), indent=1)
    try:
        import jsonschema
        jsonschema.validate(m, json.load(open("/root/.vp/MANIFEST.schema.json")))
        print("MANIFEST.json valid;", len(checks), "checks")
    except ImportError:
        print("MANIFEST.json written (jsonschema not importable here; run with python3-vt to validate)")


if __name__ == "__main__":
    main()
