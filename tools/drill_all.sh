#!/bin/bash
# usage: drill_all.sh <mutant> [<mutant> ...]   (names under /tmp/mut/out, e.g. C07-1)
# verifies each mutant (if not yet verified) and drills it against the check of its own property
cd "$(dirname "$0")/.."
for m in "$@"; do
  d=/tmp/mut/out/$m
  if [ ! -f $d/result.json ]; then python3 tools/mutant.py verify $d > $d.verify.log 2>&1; fi
  conf=$(python3 -c "import json;print(json.load(open('$d/result.json')).get('confirmed'))" 2>/dev/null)
  prop=${m%%-*}
  if ./.build/mcapsim list 2>/dev/null | grep -qx "$prop"; then
    python3 tools/mutant.py drill $d $prop > $d.drill.json 2>&1
    res=$(python3 -c "
import json,re
t=open('$d.drill.json').read()
try:
  r=json.loads(t[t.index('{'):]); x=r['results']['$prop']; print(x['exit'], x['wall_s'], (x['lines'] or [''])[0][:150])
except Exception as e: print('ERR', t[-200:])")
  else
    res="(no check for $prop yet)"
  fi
  echo "$m confirmed=$conf drill: $res"
done
